package encryption

// Replay / bounded stand-in for C19: real TLS handshakes over loopback against the configurations built by
// GetServerTLSConfig / GetClientTLSConfig, with certificates minted at run time. Injected with -overlay.

import (
	"crypto/ecdsa"
	"crypto/elliptic"
	"crypto/rand"
	"crypto/tls"
	"crypto/x509"
	"crypto/x509/pkix"
	"encoding/pem"
	"fmt"
	"math/big"
	"net"
	"os"
	"path/filepath"
	"testing"
	"time"

	"go.temporal.io/server/common/log"
)

type govcCert struct {
	certPEM, keyPEM []byte
	cert            *x509.Certificate
	key             *ecdsa.PrivateKey
	tlsCert         tls.Certificate
}

func govcMint(t *testing.T, cn string, isCA bool, parent *govcCert, notAfter time.Time, usage []x509.ExtKeyUsage, dns []string) *govcCert {
	key, err := ecdsa.GenerateKey(elliptic.P256(), rand.Reader)
	if err != nil {
		t.Fatal(err)
	}
	serial, _ := rand.Int(rand.Reader, big.NewInt(1<<62))
	tmpl := &x509.Certificate{SerialNumber: serial, Subject: pkix.Name{CommonName: cn}, NotBefore: time.Now().Add(-48 * time.Hour), NotAfter: notAfter,
		KeyUsage: x509.KeyUsageDigitalSignature, ExtKeyUsage: usage, BasicConstraintsValid: true, IsCA: isCA, DNSNames: dns}
	if isCA {
		tmpl.KeyUsage |= x509.KeyUsageCertSign
	}
	signer, signerKey := tmpl, key
	if parent != nil {
		signer, signerKey = parent.cert, parent.key
	}
	der, err := x509.CreateCertificate(rand.Reader, tmpl, signer, &key.PublicKey, signerKey)
	if err != nil {
		t.Fatal(err)
	}
	c, _ := x509.ParseCertificate(der)
	kb, _ := x509.MarshalECPrivateKey(key)
	g := &govcCert{certPEM: pem.EncodeToMemory(&pem.Block{Type: "CERTIFICATE", Bytes: der}), keyPEM: pem.EncodeToMemory(&pem.Block{Type: "EC PRIVATE KEY", Bytes: kb}), cert: c, key: key}
	g.tlsCert, err = tls.X509KeyPair(g.certPEM, g.keyPEM)
	if err != nil {
		t.Fatal(err)
	}
	return g
}

func govcWrite(t *testing.T, dir, name string, data []byte) string {
	p := filepath.Join(dir, name)
	if err := os.WriteFile(p, data, 0o600); err != nil {
		t.Fatal(err)
	}
	return p
}

// govcHandshake runs one handshake plus one byte of application data each way; true iff it completes
func govcHandshake(serverCfg, clientCfg *tls.Config) bool {
	ln, err := net.Listen("tcp", "127.0.0.1:0")
	if err != nil {
		return false
	}
	defer ln.Close()
	done := make(chan bool, 1)
	go func() {
		c, err := ln.Accept()
		if err != nil {
			done <- false
			return
		}
		defer c.Close()
		_ = c.SetDeadline(time.Now().Add(3 * time.Second))
		s := tls.Server(c, serverCfg)
		if err := s.Handshake(); err != nil {
			done <- false
			return
		}
		buf := make([]byte, 1)
		if _, err := s.Read(buf); err != nil {
			done <- false
			return
		}
		_, _ = s.Write([]byte{1})
		done <- true
	}()
	c, err := net.DialTimeout("tcp", ln.Addr().String(), 2*time.Second)
	if err != nil {
		return false
	}
	defer c.Close()
	_ = c.SetDeadline(time.Now().Add(3 * time.Second))
	cl := tls.Client(c, clientCfg)
	okc := cl.Handshake() == nil
	if okc {
		_, werr := cl.Write([]byte{1})
		buf := make([]byte, 1)
		_, rerr := cl.Read(buf)
		okc = werr == nil && rerr == nil
	}
	oks := <-done
	return okc && oks
}

func govcTLSMatrix(t *testing.T) (violations []string, cases int) {
	dir := t.TempDir()
	far := time.Now().Add(24 * time.Hour)
	both := []x509.ExtKeyUsage{x509.ExtKeyUsageClientAuth, x509.ExtKeyUsageServerAuth}
	ca := govcMint(t, "good-ca", true, nil, far, nil, nil)
	otherCA := govcMint(t, "other-ca", true, nil, far, nil, nil)
	caPath := govcWrite(t, dir, "ca.pem", ca.certPEM)
	server := govcMint(t, "server", false, ca, far, both, []string{"proxy.example"})
	serverCert := govcWrite(t, dir, "server.pem", server.certPEM)
	serverKey := govcWrite(t, dir, "server.key", server.keyPEM)
	clientRoots := x509.NewCertPool()
	clientRoots.AddCert(ca.cert)

	// ---- server role: who may connect to a listener built by GetServerTLSConfig (verification on)
	srvCfg, err := GetServerTLSConfig(TLSConfig{CertificatePath: serverCert, KeyPath: serverKey, RemoteCAPath: caPath}, log.NewNoopLogger())
	if err != nil || srvCfg == nil {
		t.Fatalf("server config: %v", err)
	}
	peers := []struct {
		name  string
		cert  *govcCert
		admit bool
	}{
		{"valid-chain", govcMint(t, "client", false, ca, far, both, nil), true},
		{"self-signed", govcMint(t, "client-self", false, nil, far, both, nil), false},
		{"other-ca", govcMint(t, "client-other", false, otherCA, far, both, nil), false},
		{"expired", govcMint(t, "client-expired", false, ca, time.Now().Add(-time.Hour), both, nil), false},
		{"wrong-usage", govcMint(t, "client-usage", false, ca, far, []x509.ExtKeyUsage{x509.ExtKeyUsageServerAuth}, nil), false},
		{"none", nil, false},
	}
	for _, p := range peers {
		cc := &tls.Config{RootCAs: clientRoots, ServerName: "proxy.example", MinVersion: tls.VersionTLS12}
		if p.cert != nil {
			pc := p.cert.tlsCert
			// a client that sends its certificate regardless of the CA hint
			cc.GetClientCertificate = func(*tls.CertificateRequestInfo) (*tls.Certificate, error) { return &pc, nil }
		}
		cases++
		got := govcHandshake(srvCfg, cc)
		if got != p.admit {
			violations = append(violations, fmt.Sprintf("server role, client credential %s: handshake completed=%v, want %v", p.name, got, p.admit))
		}
	}
	// verification explicitly disabled: the only way to relax
	cases++
	if cfg, err := GetServerTLSConfig(TLSConfig{CertificatePath: serverCert, KeyPath: serverKey, SkipCAVerification: true}, log.NewNoopLogger()); err != nil || cfg == nil || !govcHandshake(cfg, &tls.Config{RootCAs: clientRoots, ServerName: "proxy.example"}) {
		violations = append(violations, "server role, skipCAVerification=true: a certificate-less client must be admitted")
	}

	// ---- client role: which servers the proxy accepts with GetClientTLSConfig (verification on)
	cliCert := govcMint(t, "proxy-client", false, ca, far, both, nil)
	cliCertPath := govcWrite(t, dir, "cli.pem", cliCert.certPEM)
	cliKeyPath := govcWrite(t, dir, "cli.key", cliCert.keyPEM)
	for _, own := range []bool{false, true} {
		cfgIn := TLSConfig{RemoteCAPath: caPath, CAServerName: "proxy.example"}
		if own {
			cfgIn.CertificatePath, cfgIn.KeyPath = cliCertPath, cliKeyPath
		}
		cliCfg, err := GetClientTLSConfig(cfgIn)
		if err != nil || cliCfg == nil {
			t.Fatalf("client config: %v", err)
		}
		servers := []struct {
			name   string
			cert   *govcCert
			accept bool
		}{
			{"valid", server, true},
			{"self-signed", govcMint(t, "srv-self", false, nil, far, both, []string{"proxy.example"}), false},
			{"other-ca", govcMint(t, "srv-other", false, otherCA, far, both, []string{"proxy.example"}), false},
			{"expired", govcMint(t, "srv-expired", false, ca, time.Now().Add(-time.Hour), both, []string{"proxy.example"}), false},
			{"wrong-name", govcMint(t, "srv-name", false, ca, far, both, []string{"other.example"}), false},
		}
		for _, s := range servers {
			sc := &tls.Config{Certificates: []tls.Certificate{s.cert.tlsCert}, MinVersion: tls.VersionTLS12}
			cases++
			got := govcHandshake(sc, cliCfg)
			if got != s.accept {
				violations = append(violations, fmt.Sprintf("client role (own cert=%v), server credential %s: handshake completed=%v, want %v", own, s.name, got, s.accept))
			}
		}
	}
	return
}

func TestGovcReplayTLS(t *testing.T) {
	v, n := govcTLSMatrix(t)
	if len(v) > 0 {
		for _, m := range v {
			fmt.Println("REPLAY-VIOLATION", m)
		}
		return
	}
	fmt.Printf("REPLAY-OK %d handshakes behave as the property demands\n", n)
}

func TestGovcBoundedTLS(t *testing.T) {
	v, n := govcTLSMatrix(t)
	fmt.Printf("BOUNDED-CASES %d real handshakes (6 client credentials x server role, skip flag, 5 server credentials x 2 client configurations)\n", n)
	for _, m := range v {
		fmt.Println("BOUNDED-VIOLATION", m)
	}
	if len(v) > 0 {
		t.Fail()
	}
}

package interceptor

// Replay for C17 (history-blob path), injected with -overlay: a blob whose invalid UTF-8 is NOT in a failure message
// cannot be repaired; it must be reported, not passed on undecoded and unvisited.

import (
	"bytes"
	"fmt"
	"testing"

	"go.temporal.io/api/common/v1"
	"go.temporal.io/api/enums/v1"
	"go.temporal.io/api/history/v1"
	"go.temporal.io/server/common/log"
	"go.temporal.io/server/common/persistence/serialization"
)

func TestGovcReplayBlobUndecodable(t *testing.T) {
	evts := []*history.HistoryEvent{{
		EventId:   1,
		EventType: enums.EVENT_TYPE_SIGNAL_EXTERNAL_WORKFLOW_EXECUTION_INITIATED,
		Attributes: &history.HistoryEvent_SignalExternalWorkflowExecutionInitiatedEventAttributes{
			SignalExternalWorkflowExecutionInitiatedEventAttributes: &history.SignalExternalWorkflowExecutionInitiatedEventAttributes{
				Namespace:  "local-ns",
				SignalName: "abcXX",
			},
		},
	}}
	blob, err := serialization.NewSerializer().SerializeEvents(evts)
	if err != nil {
		t.Fatal(err)
	}
	data := bytes.ReplaceAll(blob.Data, []byte("abcXX"), []byte("abc\xff\xff"))
	match := createStringMatcher(map[string]string{"local-ns": "remote-ns"})
	out, matched, changed, err := translateOneDataBlob(log.NewNoopLogger(), match, visitNamespace, &common.DataBlob{EncodingType: blob.EncodingType, Data: data})
	if err == nil && !changed {
		fmt.Printf("REPLAY-VIOLATION a history blob with invalid UTF-8 in SignalName (not a failure message) does not decode and was not repaired, yet translateOneDataBlob returned err=nil matched=%v: the blob is passed on undecoded (bytes unchanged=%v) and its namespace field still reads local-ns=%v (never translated, never seen by the access check)\n",
			matched, bytes.Equal(out.Data, data), bytes.Contains(out.Data, []byte("local-ns")))
		return
	}
	fmt.Println("REPLAY-OK the undecodable blob is reported:", err)
}

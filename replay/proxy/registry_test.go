package proxy

// Replay / bounded stand-in for C08: registration races on the shard manager (injected with -overlay).

import (
	"context"
	"fmt"
	"net"
	"sync"
	"testing"
	"time"

	"go.temporal.io/server/api/adminservice/v1"
	"go.temporal.io/server/common/channel"
	"google.golang.org/grpc"
	"google.golang.org/grpc/credentials/insecure"
	"google.golang.org/grpc/test/bufconn"

	replicationv1 "go.temporal.io/server/api/replication/v1"
	"go.temporal.io/server/client/history"
	"go.temporal.io/server/common/log"
	"go.temporal.io/server/common/log/tag"

	"github.com/temporalio/s2s-proxy/config"
	"github.com/temporalio/s2s-proxy/encryption"
	"github.com/temporalio/s2s-proxy/logging"
)

type govcRegLoggers struct{}

func (govcRegLoggers) Get(logging.LogComponentName) log.Logger  { return log.NewNoopLogger() }
func (l govcRegLoggers) With(...tag.Tag) logging.LoggerProvider { return l }

// A new incarnation registers the shard while the old incarnation unregisters with ITS OWN registration time.
// Whatever the interleaving, the newest registration must survive.
func govcRegisterVsUnregisterOld(budget time.Duration) (rounds int, msg string) {
	sm := NewShardManager(nil, config.ShardCountConfig{Mode: config.ShardCountRouting}, encryption.TLSConfig{}, govcRegLoggers{}).(*shardManagerImpl)
	shard := history.ClusterShardID{ClusterID: 2, ShardID: 7}
	key := ClusterShardIDtoShortString(shard)
	deadline := time.Now().Add(budget)
	for time.Now().Before(deadline) {
		rounds++
		oldAt := sm.RegisterShard(shard)
		time.Sleep(time.Microsecond) // distinct timestamps
		// Schedule: a reader (any of the manager's read-only queries) holds the registry lock for a few
		// milliseconds; the old incarnation's UnregisterShard queues behind it; the new incarnation's RegisterShard
		// queues behind that. When the reader leaves, UnregisterShard runs its first critical section and the
		// long-waiting RegisterShard gets the lock next (Go hands a mutex to a waiter that has waited > 1 ms).
		var wg sync.WaitGroup
		wg.Add(2)
		go func() { defer wg.Done(); sm.UnregisterShard(shard, oldAt) }()
		go func() { defer wg.Done(); sm.RegisterShard(shard) }()
		wg.Wait()
		sm.mutex.RLock()
		_, registered := sm.localShards[key]
		sm.mutex.RUnlock()
		if !registered {
			return rounds, fmt.Sprintf("round %d: the new incarnation registered the shard between the two critical sections of the old incarnation's UnregisterShard (called with the OLD registration time), whose second, unconditional delete then removed the NEW registration: the shard is orphaned", rounds)
		}
		sm.mutex.Lock()
		delete(sm.localShards, key)
		sm.mutex.Unlock()
	}
	return rounds, ""
}

func TestGovcReplayUnregisterShard(t *testing.T) {
	n, msg := govcRegisterVsUnregisterOld(5 * time.Second)
	if msg != "" {
		fmt.Println("REPLAY-VIOLATION", msg)
		return
	}
	fmt.Printf("REPLAY-OK %d register||unregister-old rounds, the newest registration always survived\n", n)
}

func TestGovcBoundedRegistry(t *testing.T) {
	n, msg := govcRegisterVsUnregisterOld(3 * time.Second)
	fmt.Printf("BOUNDED-CASES %d register||unregister-old rounds (3 s stress)\n", n)
	if msg != "" {
		fmt.Println("BOUNDED-VIOLATION", msg)
		t.Fail()
	}
}

// D7: the sender incarnation has closed its channel (Run: close(s.sendMsgChan)) but its deferred
// RemoveRemoteSendChan has not run yet; a watermark replay for that shard must not crash the process.
func govcReplayOnClosedChannel(intra bool) (msg string) {
	sm := NewShardManager(nil, config.ShardCountConfig{Mode: config.ShardCountRouting}, encryption.TLSConfig{}, govcRegLoggers{})
	target := history.ClusterShardID{ClusterID: 2, ShardID: 3}
	ch := make(chan RoutedMessage, 1)
	sm.SetRemoteSendChan(target, ch)
	close(ch) // the old incarnation is shutting down
	defer func() {
		if p := recover(); p != nil {
			msg = fmt.Sprintf("watermark replay to a shard whose previous incarnation has closed its channel panicked: %v", p)
		}
	}()
	wm := &replicationv1.WorkflowReplicationMessages{ExclusiveHighWatermark: 42}
	if intra {
		r := &intraProxyStreamReceiver{logger: log.NewNoopLogger(), shardManager: sm, sourceShardID: history.ClusterShardID{ClusterID: 1, ShardID: 1}, lastWatermark: wm}
		r.sendPendingWatermarkToShard(target)
	} else {
		r := &proxyStreamReceiver{logger: log.NewNoopLogger(), shardManager: sm, sourceShardID: history.ClusterShardID{ClusterID: 1, ShardID: 1}, lastWatermark: wm}
		r.sendPendingWatermarkToShard(target)
	}
	return ""
}

func TestGovcReplayPendingWatermark(t *testing.T) {
	bad := false
	for _, intra := range []bool{false, true} {
		if m := govcReplayOnClosedChannel(intra); m != "" {
			fmt.Printf("REPLAY-VIOLATION (intra-proxy receiver=%v) %s\n", intra, m)
			bad = true
		}
	}
	if !bad {
		fmt.Println("REPLAY-OK replaying a watermark to a closed registry channel did not crash")
	}
}

// ---- D8: the clean-up of an old receiver incarnation removes the entries of its successor ----

type govcBlockingStream struct {
	grpc.ClientStream
	ctx context.Context
}

func (s *govcBlockingStream) Send(*adminservice.StreamWorkflowReplicationMessagesRequest) error { return nil }
func (s *govcBlockingStream) Recv() (*adminservice.StreamWorkflowReplicationMessagesResponse, error) {
	<-s.ctx.Done() // like a real gRPC stream: ends when the outgoing context is cancelled
	return nil, s.ctx.Err()
}
func (s *govcBlockingStream) CloseSend() error         { return nil }
func (s *govcBlockingStream) Context() context.Context { return s.ctx }

type govcBlockingAdmin struct {
	adminservice.AdminServiceClient
}

func (govcBlockingAdmin) StreamWorkflowReplicationMessages(ctx context.Context, _ ...grpc.CallOption) (adminservice.AdminService_StreamWorkflowReplicationMessagesClient, error) {
	return &govcBlockingStream{ctx: ctx}, nil
}

func govcSuccessorLosesRegistration() string {
	sm := NewShardManager(nil, config.ShardCountConfig{Mode: config.ShardCountRouting}, encryption.TLSConfig{}, govcRegLoggers{})
	src := history.ClusterShardID{ClusterID: 1, ShardID: 1}
	mk := func() *proxyStreamReceiver {
		return &proxyStreamReceiver{logger: log.NewNoopLogger(), shardManager: sm, adminClient: govcBlockingAdmin{}, localShardCount: 2,
			sourceShardID: src, targetShardID: history.ClusterShardID{ClusterID: 2, ShardID: 1}, directionLabel: "govc"}
	}
	wait := func(cond func() bool) bool {
		deadline := time.Now().Add(5 * time.Second)
		for time.Now().Before(deadline) {
			if cond() {
				return true
			}
			time.Sleep(time.Millisecond)
		}
		return false
	}
	a, b := mk(), mk()
	aDone := make(chan struct{})
	go func() { a.Run(channel.NewShutdownOnce()); close(aDone) }()
	if !wait(func() bool { cur, ok := sm.GetActiveReceiver(src); return ok && cur == ActiveReceiver(a) }) {
		return ""
	}
	bShutdown := channel.NewShutdownOnce()
	defer bShutdown.Shutdown()
	go b.Run(bShutdown) // the stream is re-established: the new incarnation cancels and evicts the old one
	if !wait(func() bool { cur, ok := sm.GetActiveReceiver(src); return ok && cur == ActiveReceiver(b) }) {
		return ""
	}
	select {
	case <-aDone:
	case <-time.After(5 * time.Second):
		return ""
	}
	time.Sleep(20 * time.Millisecond)
	_, active := sm.GetActiveReceiver(src)
	_, cancelFn := sm.GetLocalReceiverCancelFunc(src)
	if !active || !cancelFn {
		return fmt.Sprintf("the new receiver incarnation is live, but after the OLD incarnation's deferred clean-up ran its registrations are gone (active receiver registered=%v, cancel function registered=%v)", active, cancelFn)
	}
	return ""
}

func TestGovcReplayReceiverCleanup(t *testing.T) {
	if m := govcSuccessorLosesRegistration(); m != "" {
		fmt.Println("REPLAY-VIOLATION", m)
		return
	}
	fmt.Println("REPLAY-OK the old incarnation's clean-up left the successor's registrations alone")
}

// ---- D8 (intra-proxy sender): the clean-up of an old intra-proxy sender incarnation removes its successor ----

type govcBlockingServerStream struct {
	grpc.ServerStream
	ctx context.Context
}

func (s *govcBlockingServerStream) Send(*adminservice.StreamWorkflowReplicationMessagesResponse) error {
	return nil
}
func (s *govcBlockingServerStream) Recv() (*adminservice.StreamWorkflowReplicationMessagesRequest, error) {
	<-s.ctx.Done() // like a real gRPC server stream: ends when the peer goes away
	return nil, s.ctx.Err()
}
func (s *govcBlockingServerStream) Context() context.Context { return s.ctx }

func govcIntraSenderSuccessorLosesRegistration() string {
	memberlistCfg := &config.MemberlistConfig{Enabled: true, NodeName: "n1", BindAddr: "127.0.0.1", BindPort: 0}
	smI := NewShardManager(memberlistCfg, config.ShardCountConfig{Mode: config.ShardCountRouting}, encryption.TLSConfig{}, govcRegLoggers{})
	sm := smI.(*shardManagerImpl) // memberlist is never started: only the registries are used
	mgr := sm.GetIntraProxyManager()
	if mgr == nil {
		return ""
	}
	src := history.ClusterShardID{ClusterID: 1, ShardID: 1}
	tgt := history.ClusterShardID{ClusterID: 2, ShardID: 1}
	key := peerStreamKey{targetShard: tgt, sourceShard: src}
	mk := func() *intraProxyStreamSender {
		return &intraProxyStreamSender{logger: log.NewNoopLogger(), shardManager: smI, peerNodeName: "peer", sourceShardID: src, targetShardID: tgt}
	}
	registered := func() *intraProxyStreamSender {
		mgr.streamsMu.RLock()
		defer mgr.streamsMu.RUnlock()
		if ps := mgr.peers["peer"]; ps != nil {
			return ps.senders[key]
		}
		return nil
	}
	wait := func(cond func() bool) bool {
		deadline := time.Now().Add(5 * time.Second)
		for time.Now().Before(deadline) {
			if cond() {
				return true
			}
			time.Sleep(time.Millisecond)
		}
		return false
	}
	a, b := mk(), mk()
	ctxA, cancelA := context.WithCancel(context.Background())
	ctxB, cancelB := context.WithCancel(context.Background())
	defer cancelB()
	aDone := make(chan struct{})
	go func() { _ = a.Run(&govcBlockingServerStream{ctx: ctxA}, channel.NewShutdownOnce()); close(aDone) }()
	if !wait(func() bool { return registered() == a }) {
		return ""
	}
	// the peer re-establishes the stream: a second incarnation registers while the first is still going away
	go func() { _ = b.Run(&govcBlockingServerStream{ctx: ctxB}, channel.NewShutdownOnce()) }()
	if !wait(func() bool { return registered() == b }) {
		return ""
	}
	cancelA() // the old stream finally ends: its deferred clean-up runs
	select {
	case <-aDone:
	case <-time.After(5 * time.Second):
		return ""
	}
	if cur := registered(); cur != b {
		return fmt.Sprintf("the new intra-proxy sender incarnation is live, but after the OLD incarnation's deferred UnregisterSender ran no sender is registered for the peer/shard pair any more (registered=%v): messages for the peer are reported undeliverable", cur != nil)
	}
	return ""
}

func TestGovcReplayIntraSenderCleanup(t *testing.T) {
	if m := govcIntraSenderSuccessorLosesRegistration(); m != "" {
		fmt.Println("REPLAY-VIOLATION", m)
		return
	}
	fmt.Println("REPLAY-OK the old incarnation's clean-up left the successor's registration alone")
}

// ---- D8 (intra-proxy receiver): same unconditional clean-up of the active-receiver entry ----

type govcIdleAdminServer struct {
	adminservice.UnimplementedAdminServiceServer
}

func (govcIdleAdminServer) StreamWorkflowReplicationMessages(s adminservice.AdminService_StreamWorkflowReplicationMessagesServer) error {
	<-s.Context().Done()
	return nil
}

func govcIntraReceiverSuccessorLosesRegistration() string {
	lis := bufconn.Listen(1 << 20)
	srv := grpc.NewServer()
	adminservice.RegisterAdminServiceServer(srv, govcIdleAdminServer{})
	go func() { _ = srv.Serve(lis) }()
	defer srv.Stop()
	conn, err := grpc.NewClient("passthrough:///bufnet",
		grpc.WithContextDialer(func(ctx context.Context, _ string) (net.Conn, error) { return lis.DialContext(ctx) }),
		grpc.WithTransportCredentials(insecure.NewCredentials()))
	if err != nil {
		return ""
	}
	defer conn.Close()
	sm := NewShardManager(nil, config.ShardCountConfig{Mode: config.ShardCountRouting}, encryption.TLSConfig{}, govcRegLoggers{})
	src := history.ClusterShardID{ClusterID: 1, ShardID: 1}
	tgt := history.ClusterShardID{ClusterID: 2, ShardID: 1}
	mk := func() *intraProxyStreamReceiver {
		return &intraProxyStreamReceiver{logger: log.NewNoopLogger(), shardManager: sm, peerNodeName: "peer", targetShardID: tgt, sourceShardID: src,
			shutdown: channel.NewShutdownOnce()}
	}
	wait := func(cond func() bool) bool {
		deadline := time.Now().Add(5 * time.Second)
		for time.Now().Before(deadline) {
			if cond() {
				return true
			}
			time.Sleep(time.Millisecond)
		}
		return false
	}
	a, b := mk(), mk()
	ctxA, cancelA := context.WithCancel(context.Background())
	ctxB, cancelB := context.WithCancel(context.Background())
	defer cancelB()
	aDone := make(chan struct{})
	go func() { _ = a.Run(ctxA, sm, conn); close(aDone) }()
	if !wait(func() bool { cur, ok := sm.GetActiveReceiver(src); return ok && cur == ActiveReceiver(a) }) {
		return ""
	}
	go func() { _ = b.Run(ctxB, sm, conn) }()
	if !wait(func() bool { cur, ok := sm.GetActiveReceiver(src); return ok && cur == ActiveReceiver(b) }) {
		return ""
	}
	cancelA()
	select {
	case <-aDone:
	case <-time.After(5 * time.Second):
		return ""
	}
	if cur, ok := sm.GetActiveReceiver(src); !ok || cur != ActiveReceiver(b) {
		return fmt.Sprintf("the new intra-proxy receiver incarnation is live, but after the OLD incarnation's deferred UnregisterActiveReceiver ran no active receiver is registered for the source shard any more (registered=%v)", ok)
	}
	return ""
}

func TestGovcReplayIntraReceiverCleanup(t *testing.T) {
	if m := govcIntraReceiverSuccessorLosesRegistration(); m != "" {
		fmt.Println("REPLAY-VIOLATION", m)
		return
	}
	fmt.Println("REPLAY-OK the old incarnation's clean-up left the successor's registration alone")
}

// ---- C08 (no worker left running): the intra-proxy receiver's wait for a local target channel ignores shutdown ----

type govcOneMessageStream struct {
	grpc.ClientStream
	ctx  context.Context
	sent bool
}

func (s *govcOneMessageStream) Send(*adminservice.StreamWorkflowReplicationMessagesRequest) error { return nil }
func (s *govcOneMessageStream) Recv() (*adminservice.StreamWorkflowReplicationMessagesResponse, error) {
	if !s.sent {
		s.sent = true
		return &adminservice.StreamWorkflowReplicationMessagesResponse{Attributes: &adminservice.StreamWorkflowReplicationMessagesResponse_Messages{
			Messages: &replicationv1.WorkflowReplicationMessages{ExclusiveHighWatermark: 7}}}, nil
	}
	<-s.ctx.Done()
	return nil, s.ctx.Err()
}
func (s *govcOneMessageStream) CloseSend() error         { return nil }
func (s *govcOneMessageStream) Context() context.Context { return s.ctx }

func govcIntraReceiverIgnoresShutdown() string {
	sm := NewShardManager(nil, config.ShardCountConfig{Mode: config.ShardCountRouting}, encryption.TLSConfig{}, govcRegLoggers{})
	ctx, cancel := context.WithCancel(context.Background())
	defer cancel()
	r := &intraProxyStreamReceiver{logger: log.NewNoopLogger(), shardManager: sm, peerNodeName: "peer",
		targetShardID: history.ClusterShardID{ClusterID: 2, ShardID: 1}, sourceShardID: history.ClusterShardID{ClusterID: 1, ShardID: 1},
		streamClient: &govcOneMessageStream{ctx: ctx}, streamID: "govc", shutdown: channel.NewShutdownOnce()}
	done := make(chan struct{})
	go func() { _ = r.recvReplicationMessages(); close(done) }()
	time.Sleep(100 * time.Millisecond) // the worker has taken the message and waits for a local channel of the target shard, which never comes
	r.shutdown.Shutdown()
	cancel()
	select {
	case <-done:
		return ""
	case <-time.After(3 * time.Second):
		return "the intra-proxy receiver was shut down (latch tripped, stream context cancelled) while it was waiting for a local send channel of its target shard; 3 s later its worker is still running: the wait loop never looks at the latch"
	}
}

func TestGovcReplayIntraReceiverShutdown(t *testing.T) {
	if m := govcIntraReceiverIgnoresShutdown(); m != "" {
		fmt.Println("REPLAY-VIOLATION", m)
		return
	}
	fmt.Println("REPLAY-OK the worker ended with the stream")
}

// ---- C08 / C09: a second reconcile tick while the first intra-proxy receiver is still connecting ----

type govcCountingAdminServer struct {
	adminservice.UnimplementedAdminServiceServer
	mu      sync.Mutex
	streams int
}

func (s *govcCountingAdminServer) StreamWorkflowReplicationMessages(st adminservice.AdminService_StreamWorkflowReplicationMessagesServer) error {
	s.mu.Lock()
	s.streams++
	s.mu.Unlock()
	<-st.Context().Done()
	return nil
}

// slowListener delays the first Accept, like a peer that is slow to take connections.
type govcSlowListener struct {
	net.Listener
	once  sync.Once
	delay time.Duration
}

func (l *govcSlowListener) Accept() (net.Conn, error) {
	l.once.Do(func() { time.Sleep(l.delay) })
	return l.Listener.Accept()
}

func govcDuplicateIntraReceivers() string {
	base, err := net.Listen("tcp", "127.0.0.1:0")
	if err != nil {
		return ""
	}
	srvImpl := &govcCountingAdminServer{}
	srv := grpc.NewServer()
	adminservice.RegisterAdminServiceServer(srv, srvImpl)
	go func() { _ = srv.Serve(&govcSlowListener{Listener: base, delay: 1500 * time.Millisecond}) }()
	defer srv.Stop()

	cfg := &config.MemberlistConfig{Enabled: true, NodeName: "me", BindAddr: "127.0.0.1", BindPort: 0,
		ProxyAddresses: map[string]string{"peer": base.Addr().String()}}
	sm := NewShardManager(cfg, config.ShardCountConfig{Mode: config.ShardCountRouting}, encryption.TLSConfig{}, govcRegLoggers{}).(*shardManagerImpl)
	mgr := sm.GetIntraProxyManager()
	if mgr == nil {
		return ""
	}
	tgt := history.ClusterShardID{ClusterID: 2, ShardID: 1}
	src := history.ClusterShardID{ClusterID: 1, ShardID: 1}
	key := peerStreamKey{targetShard: tgt, sourceShard: src}
	ctx, cancel := context.WithCancel(context.Background())
	defer cancel()
	// two reconcile ticks, one second apart, while the peer is slow to accept the connection
	if err := mgr.ensureStream(ctx, log.NewNoopLogger(), "peer", tgt, src); err != nil {
		return ""
	}
	time.Sleep(1100 * time.Millisecond)
	if err := mgr.ensureStream(ctx, log.NewNoopLogger(), "peer", tgt, src); err != nil {
		return ""
	}
	time.Sleep(1500 * time.Millisecond) // both connection attempts have gone through by now
	srvImpl.mu.Lock()
	streams := srvImpl.streams
	srvImpl.mu.Unlock()
	mgr.streamsMu.RLock()
	registered := 0
	if ps := mgr.peers["peer"]; ps != nil && ps.receivers[key] != nil {
		registered = 1
	}
	mgr.streamsMu.RUnlock()
	if streams > 1 {
		return fmt.Sprintf("two reconcile ticks while the peer was slow to accept: %d live intra-proxy streams for the same peer/shard pair, %d of them registered - the other one is an orphan that nothing will ever close", streams, registered)
	}
	return ""
}

func TestGovcReplayDuplicateIntraReceivers(t *testing.T) {
	if m := govcDuplicateIntraReceivers(); m != "" {
		fmt.Println("REPLAY-VIOLATION", m)
		return
	}
	fmt.Println("REPLAY-OK one stream per peer/shard pair")
}

package proxy

// Replay / bounded stand-ins for C09: ownership convergence among proxy instances (injected with -overlay).
//   - real memberlist nodes on loopback (TestGovcReplayMutualEviction, part of TestGovcBoundedGossip)
//   - exhaustive delivery orders of register announcements against the real delegates (TestGovcBoundedGossip)

import (
	"context"
	"encoding/json"
	"fmt"
	"math/rand"
	"net"
	"os"
	"strconv"
	"testing"
	"time"

	"go.temporal.io/server/client/history"
	"go.temporal.io/server/common/log"
	"go.temporal.io/server/common/log/tag"

	"github.com/temporalio/s2s-proxy/config"
	"github.com/temporalio/s2s-proxy/encryption"
	"github.com/temporalio/s2s-proxy/logging"
)

type govcGLoggers struct{}

func (govcGLoggers) Get(logging.LogComponentName) log.Logger  { return log.NewNoopLogger() }
func (l govcGLoggers) With(...tag.Tag) logging.LoggerProvider { return l }

func govcFreePort() (int, bool) {
	l, err := net.Listen("tcp", "127.0.0.1:0")
	if err != nil {
		return 0, false
	}
	defer l.Close()
	return l.Addr().(*net.TCPAddr).Port, true
}

func govcRealNode(ctx context.Context, name string, port int, join []string) (*shardManagerImpl, error) {
	cfg := &config.MemberlistConfig{Enabled: true, NodeName: name, BindAddr: "127.0.0.1", BindPort: port, JoinAddrs: join,
		ProxyAddresses: map[string]string{}}
	sm := NewShardManager(cfg, config.ShardCountConfig{Mode: config.ShardCountLCM}, encryption.TLSConfig{}, govcGLoggers{}).(*shardManagerImpl)
	if sm.ml != nil {
		return nil, fmt.Errorf("unexpected")
	}
	if err := sm.Start(ctx); err != nil {
		return nil, err
	}
	return sm, nil
}

func govcKnows(sm *shardManagerImpl, peer string) bool {
	sm.remoteNodeStatesMu.RLock()
	defer sm.remoteNodeStatesMu.RUnlock()
	_, ok := sm.remoteNodeStates[peer]
	return ok
}

func govcCreated(sm *shardManagerImpl, shard history.ClusterShardID) (time.Time, bool) {
	sm.mutex.RLock()
	defer sm.mutex.RUnlock()
	si, ok := sm.localShards[ClusterShardIDtoShortString(shard)]
	return si.Created, ok
}

// Two real instances (real memberlist over loopback) claim the same shard within gapMs of each other. At quiescence
// exactly the instance with the newest claim must own it. Returns "" when that holds.
func govcTwoNodeClaim(gapMs int) (string, bool) {
	ctx, cancel := context.WithCancel(context.Background())
	defer cancel()
	pa, ok1 := govcFreePort()
	pb, ok2 := govcFreePort()
	if !ok1 || !ok2 {
		return "", false
	}
	A, err := govcRealNode(ctx, "A", pa, nil)
	if err != nil {
		return "", false
	}
	B, err := govcRealNode(ctx, "B", pb, []string{fmt.Sprintf("127.0.0.1:%d", pa)})
	if err != nil {
		return "", false
	}
	deadline := time.Now().Add(10 * time.Second)
	for time.Now().Before(deadline) && !(govcKnows(A, "B") && govcKnows(B, "A")) {
		time.Sleep(10 * time.Millisecond)
	}
	if !(govcKnows(A, "B") && govcKnows(B, "A")) {
		return "", false
	}
	shard := history.ClusterShardID{ClusterID: 2, ShardID: 7}
	type claim struct{ at time.Time }
	ca, cb := make(chan claim, 1), make(chan claim, 1)
	go func() { ca <- claim{A.RegisterShard(shard)} }()
	time.Sleep(time.Duration(gapMs) * time.Millisecond)
	go func() { cb <- claim{B.RegisterShard(shard)} }()
	ta, tb := (<-ca).at, (<-cb).at
	time.Sleep(400 * time.Millisecond) // reliable sends over loopback land well within this
	_, ownsA := govcCreated(A, shard)
	_, ownsB := govcCreated(B, shard)
	newest := "B"
	if ta.After(tb) {
		newest = "A"
	}
	switch {
	case !ownsA && !ownsB:
		return fmt.Sprintf("instances A and B claimed shard %s %d ms apart (A at %s, B at %s); after both announcements were delivered NEITHER owns it: each took the other's announcement for the newer claim", ClusterShardIDtoString(shard), gapMs, ta.Format("15:04:05.000000"), tb.Format("15:04:05.000000")), true
	case ownsA && ownsB:
		return "both instances still own the shard after both announcements were delivered", true
	case (newest == "A") != ownsA:
		return fmt.Sprintf("the shard ended up with the OLDER claim (newest claim was %s's)", newest), true
	}
	return "", true
}

// Replay of D12 (fixed): the announcement must carry the claim's registration time. A schedule-forcing delay
// between registration and broadcast (overlay) makes the two claims overlap.
func TestGovcReplayMutualEviction(t *testing.T) {
	msg, ran := govcTwoNodeClaim(10)
	switch {
	case !ran:
		fmt.Println("REPLAY-SKIPPED loopback memberlist not available")
	case msg == "":
		fmt.Println("REPLAY-OK exactly the newest claim owns the shard")
	default:
		fmt.Println("REPLAY-VIOLATION", msg)
	}
}

// ---- exhaustive delivery orders against the real delegates ----

type govcEv struct {
	kind     int // 0 claim, 1 deliver
	from, to int
}

func govcPermute(evs []govcEv, used []bool, cur []govcEv, claimed []bool, visit func([]govcEv) bool) bool {
	if len(cur) == len(evs) {
		return visit(cur)
	}
	for i, e := range evs {
		if used[i] || (e.kind == 1 && !claimed[e.from]) {
			continue
		}
		used[i] = true
		if e.kind == 0 {
			claimed[e.from] = true
		}
		ok := govcPermute(evs, used, append(cur, e), claimed, visit)
		used[i] = false
		if e.kind == 0 {
			claimed[e.from] = false
		}
		if !ok {
			return false
		}
	}
	return true
}

// One history: n instances (real shard managers, memberlist not started), events = claims and deliveries of the
// register announcement of instance `from` to instance `to` through the real NotifyMsg. The announcement is built the
// way broadcastShardChange builds it (type, node, shard, registration time). dup = deliver every announcement twice.
func govcRunHistory(n int, evs []govcEv, dup bool) string {
	shard := history.ClusterShardID{ClusterID: 2, ShardID: 7}
	var sms []*shardManagerImpl
	for i := 0; i < n; i++ {
		sm := NewShardManager(nil, config.ShardCountConfig{Mode: config.ShardCountLCM}, encryption.TLSConfig{}, govcGLoggers{}).(*shardManagerImpl)
		sm.onRemoteShardChange = func(string, history.ClusterShardID, bool) {}
		sms = append(sms, sm)
	}
	ann := make([][]byte, n)
	last := -1
	for _, e := range evs {
		if e.kind == 0 {
			at := sms[e.from].RegisterShard(shard)
			ann[e.from], _ = json.Marshal(ShardMessage{Type: "register", NodeName: fmt.Sprintf("n%d", e.from), ClientShard: shard, Timestamp: at})
			last = e.from
			time.Sleep(time.Microsecond)
			continue
		}
		sms[e.to].delegate.NotifyMsg(ann[e.from])
		if dup {
			sms[e.to].delegate.NotifyMsg(ann[e.from])
		}
	}
	for i, sm := range sms {
		_, owns := govcCreated(sm, shard)
		if owns != (i == last) {
			return fmt.Sprintf("history %v: instance %d owns=%v, newest claim is instance %d's", evs, i, owns, last)
		}
	}
	return ""
}

func TestGovcBoundedGossip(t *testing.T) {
	cases := 0
	for _, n := range []int{2, 3} {
		var evs []govcEv
		for i := 0; i < n; i++ {
			evs = append(evs, govcEv{kind: 0, from: i})
			for j := 0; j < n; j++ {
				if i != j {
					evs = append(evs, govcEv{kind: 1, from: i, to: j})
				}
			}
		}
		for _, dup := range []bool{false, true} {
			bad := ""
			govcPermute(evs, make([]bool, len(evs)), nil, make([]bool, n), func(h []govcEv) bool {
				cases++
				if m := govcRunHistory(n, h, dup); m != "" {
					bad = m
					return false
				}
				return true
			})
			if bad != "" {
				fmt.Println("BOUNDED-VIOLATION", bad)
				fmt.Printf("BOUNDED-CASES %d\n", cases)
				return
			}
		}
	}
	// real instances over loopback memberlist, claims a few milliseconds apart
	rounds := 3
	if os.Getenv("GOVC_TIER") == "thorough" {
		rounds = 12
	}
	seed, _ := strconv.Atoi(os.Getenv("GOVC_SEED"))
	rng := rand.New(rand.NewSource(int64(seed) + 1))
	real := 0
	for i := 0; i < rounds; i++ {
		msg, ran := govcTwoNodeClaim(1 + rng.Intn(20))
		if !ran {
			break
		}
		real++
		if msg != "" {
			fmt.Println("BOUNDED-VIOLATION", msg)
			return
		}
	}
	fmt.Printf("BOUNDED-CASES %d delivery histories (2 and 3 instances, every order of claims and deliveries, with and without duplicates) + %d runs of two real memberlist instances\n", cases, real)
}

package proxy

// Replay and bounded stand-in for the proxy-id ring buffer (C05 / C01). Injected with `go test -overlay`.
// The oracle is an independent reference model (a plain slice of (proxyID, shard, task) entries), written
// from the property statement.

import (
	"encoding/json"
	"fmt"
	"math/rand"
	"os"
	"strconv"
	"strings"
	"testing"

	"go.temporal.io/server/client/history"
)

type govcRefEntry struct {
	id    int64
	shard history.ClusterShardID
	task  int64
	hole  bool
}

func govcInput(t *testing.T) map[string]any {
	p := os.Getenv("GOVC_REPLAY_INPUT")
	if p == "" {
		t.Skip("no GOVC_REPLAY_INPUT")
	}
	data, err := os.ReadFile(p)
	if err != nil {
		t.Fatal(err)
	}
	m := map[string]any{}
	if err := json.Unmarshal(data, &m); err != nil {
		t.Fatal(err)
	}
	return m
}

func govcInt(m map[string]any, k string) int64 {
	switch v := m[k].(type) {
	case float64:
		return int64(v)
	case string:
		n, _ := strconv.ParseInt(v, 10, 64)
		return n
	}
	return 0
}

// govcRingFromInput rebuilds the receiver from the model of the entry state
func govcRingFromInput(m map[string]any) (*proxyIDRingBuffer, bool) {
	n := int(govcInt(m, "b.entries.$len"))
	if n < 1 || n > 64 {
		return nil, false
	}
	b := &proxyIDRingBuffer{entries: make([]proxyIDMapping, n), head: int(govcInt(m, "b.head")), size: int(govcInt(m, "b.size")),
		maxSize: int(govcInt(m, "b.maxSize")), startProxyID: govcInt(m, "b.startProxyID")}
	for j := 0; j < n && j < 8; j++ {
		p := fmt.Sprintf("b.entries[%d].", j)
		b.entries[j] = proxyIDMapping{sourceShard: history.ClusterShardID{ClusterID: int32(govcInt(m, p+"sourceShard.ClusterID")), ShardID: int32(govcInt(m, p+"sourceShard.ShardID"))}, sourceTask: govcInt(m, p+"sourceTask")}
	}
	if b.head < 0 || b.head >= n || b.size < 0 || b.size > n {
		return nil, false
	}
	return b, true
}

func govcView(b *proxyIDRingBuffer) []govcRefEntry {
	var v []govcRefEntry
	for j := 0; j < b.size; j++ {
		e := b.entries[(b.head+j)%len(b.entries)]
		v = append(v, govcRefEntry{id: b.startProxyID + int64(j), shard: e.sourceShard, task: e.sourceTask, hole: e.sourceShard.ClusterID == 0 && e.sourceShard.ShardID == 0})
	}
	return v
}

func govcRefAggregate(v []govcRefEntry, w int64) (map[history.ClusterShardID]int64, int) {
	res := map[history.ClusterShardID]int64{}
	n := 0
	for _, e := range v {
		if e.id > w {
			break
		}
		n++
		if e.hole {
			continue
		}
		if cur, ok := res[e.shard]; !ok || e.task > cur {
			res[e.shard] = e.task
		}
	}
	return res, n
}

func govcSameView(a, b []govcRefEntry) string {
	if len(a) != len(b) {
		return fmt.Sprintf("view length %d != %d", len(a), len(b))
	}
	for i := range a {
		if a[i].id != b[i].id || a[i].hole != b[i].hole || (!a[i].hole && (a[i].shard != b[i].shard || a[i].task != b[i].task)) {
			return fmt.Sprintf("entry %d: got %+v want %+v", i, a[i], b[i])
		}
	}
	return ""
}

func govcWF(b *proxyIDRingBuffer) string {
	if len(b.entries) < 1 || b.head < 0 || b.head >= len(b.entries) || b.size < 0 || b.size > len(b.entries) {
		return fmt.Sprintf("ill-formed: cap=%d head=%d size=%d", len(b.entries), b.head, b.size)
	}
	return ""
}

// govcCheckOp runs one operation on the real buffer and on the reference view; returns a violation text or ""
func govcCheckOp(b *proxyIDRingBuffer, ref *[]govcRefEntry, op string, a1 int64, shard history.ClusterShardID, task int64) (msg string) {
	defer func() {
		if r := recover(); r != nil {
			msg = fmt.Sprintf("%s panicked: %v", op, r)
		}
	}()
	switch op {
	case "append":
		b.Append(a1, shard, task)
		v := *ref
		next := a1
		if len(v) > 0 {
			next = v[len(v)-1].id + 1
		}
		for id := next; id < a1; id++ {
			v = append(v, govcRefEntry{id: id, hole: true})
		}
		v = append(v, govcRefEntry{id: a1, shard: shard, task: task, hole: shard.ClusterID == 0 && shard.ShardID == 0})
		*ref = v
	case "discard":
		b.Discard(int(a1))
		n := int(a1)
		if n < 0 {
			n = 0
		}
		if n > len(*ref) {
			n = len(*ref)
		}
		*ref = (*ref)[n:]
	case "aggregate":
		got, cnt := b.AggregateUpTo(a1)
		want, wcnt := govcRefAggregate(*ref, a1)
		if cnt != wcnt {
			return fmt.Sprintf("AggregateUpTo(%d): count %d want %d", a1, cnt, wcnt)
		}
		if len(got) != len(want) {
			return fmt.Sprintf("AggregateUpTo(%d): got %v want %v", a1, got, want)
		}
		for k, v := range want {
			if got[k] != v {
				return fmt.Sprintf("AggregateUpTo(%d): got %v want %v", a1, got, want)
			}
		}
	case "ensure":
		b.ensureCapacity()
		if b.size >= len(b.entries) {
			return "ensureCapacity left the buffer full"
		}
	}
	if m := govcWF(b); m != "" {
		return op + ": " + m
	}
	if len(*ref) > 0 || b.size > 0 {
		if m := govcSameView(govcView(b), *ref); m != "" {
			return op + ": " + m
		}
	}
	return ""
}

func TestGovcReplayRing(t *testing.T) {
	m := govcInput(t)
	b, ok := govcRingFromInput(m)
	if !ok {
		fmt.Println("REPLAY-SKIP entry state outside the replayable range (capacity 1..64)")
		return
	}
	ref := govcView(b)
	obl := os.Getenv("GOVC_OBLIGATION")
	var msg string
	shard := history.ClusterShardID{ClusterID: int32(govcInt(m, "sourceShard.ClusterID")), ShardID: int32(govcInt(m, "sourceShard.ShardID"))}
	switch {
	case strings.Contains(obl, ").Append#"):
		id := govcInt(m, "proxyID")
		if len(ref) > 0 && (id < ref[len(ref)-1].id+1 || id-ref[0].id > 4096) || id < 1 {
			fmt.Println("REPLAY-SKIP arguments violate the precondition or are too large to replay")
			return
		}
		msg = govcCheckOp(b, &ref, "append", id, shard, govcInt(m, "sourceTask"))
	case strings.Contains(obl, ").Discard#"):
		msg = govcCheckOp(b, &ref, "discard", govcInt(m, "count"), shard, 0)
	case strings.Contains(obl, ").AggregateUpTo#"):
		msg = govcCheckOp(b, &ref, "aggregate", govcInt(m, "watermark"), shard, 0)
	case strings.Contains(obl, ").ensureCapacity#"):
		msg = govcCheckOp(b, &ref, "ensure", 0, shard, 0)
	default:
		fmt.Println("REPLAY-SKIP no replay for", obl)
		return
	}
	if msg != "" {
		fmt.Println("REPLAY-VIOLATION", msg)
	} else {
		fmt.Println("REPLAY-OK the executable contract holds on this input")
	}
}

// Bounded stand-in: every operation sequence up to a length over small capacities, then random longer ones.
func TestGovcBoundedRing(t *testing.T) {
	shards := []history.ClusterShardID{{ClusterID: 1, ShardID: 1}, {ClusterID: 1, ShardID: 2}}
	maxLen := 6
	if os.Getenv("GOVC_TIER") == "thorough" {
		maxLen = 7
	}
	cases := 0
	type op struct {
		kind string
		arg  int64
	}
	ops := []op{{"append", 0}, {"append", 1}, {"append", 2}, {"aggregate", -1}, {"aggregate", 0}, {"aggregate", 1}, {"aggregate", 99}, {"discard", 1}, {"discard", 2}, {"discard", 99}, {"aggdiscard", 1}}
	var run func(cap int, seq []int) string
	run = func(cap int, seq []int) string {
		b := newProxyIDRingBuffer(cap)
		var ref []govcRefEntry
		next := int64(1)
		task := int64(100)
		for step, oi := range seq {
			o := ops[oi]
			var msg string
			switch o.kind {
			case "append":
				id := next + o.arg // gap of o.arg ids
				task += 7
				msg = govcCheckOp(b, &ref, "append", id, shards[step%2], task)
				next = id + 1
			case "aggregate":
				w := o.arg
				if len(ref) > 0 && o.arg >= 0 && o.arg < 99 {
					w = ref[0].id + o.arg
				}
				msg = govcCheckOp(b, &ref, "aggregate", w, shards[0], 0)
			case "discard":
				msg = govcCheckOp(b, &ref, "discard", o.arg, shards[0], 0)
			case "aggdiscard":
				if len(ref) > 0 {
					_, n := b.AggregateUpTo(ref[0].id + o.arg)
					msg = govcCheckOp(b, &ref, "discard", int64(n), shards[0], 0)
				}
			}
			if msg != "" {
				return fmt.Sprintf("cap=%d seq=%v step=%d: %s", cap, seq[:step+1], step, msg)
			}
		}
		return ""
	}
	var rec func(cap int, seq []int)
	fail := ""
	rec = func(cap int, seq []int) {
		if fail != "" {
			return
		}
		if len(seq) > 0 {
			cases++
			if m := run(cap, seq); m != "" {
				fail = m
				return
			}
		}
		if len(seq) == maxLen {
			return
		}
		for i := range ops {
			rec(cap, append(seq, i))
		}
	}
	for cap := 1; cap <= 3 && fail == ""; cap++ {
		rec(cap, nil)
	}
	seed, _ := strconv.Atoi(os.Getenv("GOVC_SEED"))
	rng := rand.New(rand.NewSource(int64(seed) + 1))
	for i := 0; i < 3000 && fail == ""; i++ {
		n := 8 + rng.Intn(40)
		seq := make([]int, n)
		for j := range seq {
			seq[j] = rng.Intn(len(ops))
		}
		cases++
		fail = run(1+rng.Intn(5), seq)
	}
	fmt.Printf("BOUNDED-CASES %d operation sequences (exhaustive to length %d over capacities 1-3, 3000 random of length 8-47)\n", cases, maxLen)
	if fail != "" {
		fmt.Println("BOUNDED-VIOLATION", fail)
		t.Fail()
	}
}

package proxy

import (
	"sync"
	"testing"

	"go.temporal.io/server/common/log"
)

// Replay for `guard:ReplicationStreamObserver.streamActive`: reports for one small shard id race with reports that
// force the counter slice to grow. Every +1 is paired with a -1, so afterwards the counter of the small id is 0 and
// PrintActiveStreams lists nothing - unless a report was added to an array that a concurrent grow had already copied.
func TestGovcReplayObserverGrowRace(t *testing.T) {
	for round := 0; round < 60; round++ {
		o := NewReplicationStreamObserver(log.NewTestLogger())
		var wg sync.WaitGroup
		stop := make(chan struct{})
		wg.Add(1)
		go func() {
			defer wg.Done()
			for {
				select {
				case <-stop:
					return
				default:
				}
				o.ReportStreamValue(7, 1)
				o.ReportStreamValue(7, -1)
			}
		}()
		idx := int32(2000)
		for i := 0; i < 14; i++ {
			o.ReportStreamValue(idx, 1)
			o.ReportStreamValue(idx, -1)
			idx *= 2
		}
		close(stop)
		wg.Wait()
		if got := o.PrintActiveStreams(); got != "[]" {
			t.Fatalf("REPLAY-VIOLATION round %d: every report was paired, yet the observer lists active streams %s", round, got)
		}
	}
}

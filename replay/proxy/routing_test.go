package proxy

// Routing scenario harness used as replay / bounded stand-in for C01 (injected with `go test -overlay`).
// Real proxyStreamReceiver, proxyStreamSender (with the id ring) and shardManagerImpl; only the gRPC source and
// target streams are faked. (Harness adapted from a demonstration written independently of the contracts.)
//
// Every acknowledgement the proxy sends to the source shard is checked against property C01
// at the moment it is sent: all tasks of that source shard with a smaller id that the proxy
// has received must already have been acknowledged by the target stream they were forwarded on.

import (
	"context"
	"fmt"
	"io"
	"strconv"
	"sync"
	"testing"
	"time"

	"go.temporal.io/server/api/adminservice/v1"
	enumsspb "go.temporal.io/server/api/enums/v1"
	persistencespb "go.temporal.io/server/api/persistence/v1"
	replicationv1 "go.temporal.io/server/api/replication/v1"
	"go.temporal.io/server/client/history"
	servercommon "go.temporal.io/server/common"
	"go.temporal.io/server/common/channel"
	"go.temporal.io/server/common/log"
	"go.temporal.io/server/common/log/tag"
	"google.golang.org/grpc"

	"github.com/temporalio/s2s-proxy/config"
	"github.com/temporalio/s2s-proxy/encryption"
	"github.com/temporalio/s2s-proxy/logging"
)

// ---------------------------------------------------------------- harness
//
// Real code under test: proxyStreamReceiver (recvReplicationMessages, sendAck),
// proxyStreamSender (sendReplicationMessages, recvAck, proxyIDRingBuffer) and
// shardManagerImpl (channel registry, ack/message delivery, new-shard notification).
// Faked: only the two kinds of gRPC stream (source side and target side).

type govcRLoggers struct{}

func (govcRLoggers) Get(logging.LogComponentName) log.Logger  { return log.NewNoopLogger() }
func (l govcRLoggers) With(...tag.Tag) logging.LoggerProvider { return l }

type govcRFwd struct {
	target  history.ClusterShardID
	stream  *govcRTargetStream // the stream INCARNATION the task was forwarded on
	proxyID int64
}

// govcRWorld records what the fake source and the fake targets observed, and checks C01
// every time the proxy sends an acknowledgement to the source shard.
type govcRWorld struct {
	mu sync.Mutex
	// received[id] is set once the source stream has handed task id to the proxy
	received map[int64]bool
	// where[id] = target stream + proxy task id under which task id was forwarded
	where map[int64]govcRFwd
	// targetAcked[target] = highest inclusive low watermark that target stream has sent so far
	targetAcked map[history.ClusterShardID]int64
	// streamAcked[incarnation] = the same, per target stream incarnation (proxy ids restart with each incarnation)
	streamAcked map[*govcRTargetStream]int64
	// upstream = acks the proxy sent to the source shard (keepalive repeats excluded)
	upstream   []int64
	lastReq    *adminservice.StreamWorkflowReplicationMessagesRequest
	violations []string
}

func newGovcRWorld() *govcRWorld {
	return &govcRWorld{
		received:    map[int64]bool{},
		where:       map[int64]govcRFwd{},
		targetAcked: map[history.ClusterShardID]int64{},
		streamAcked: map[*govcRTargetStream]int64{},
	}
}

// onUpstreamAck runs synchronously inside the fake source stream's Send, i.e. at the
// very moment the proxy acknowledges to the source shard.
func (w *govcRWorld) onUpstreamAck(req *adminservice.StreamWorkflowReplicationMessagesRequest) {
	a := req.GetSyncReplicationState().GetInclusiveLowWatermark()
	w.mu.Lock()
	defer w.mu.Unlock()
	if req != w.lastReq { // the receiver's keepalive re-sends the identical request object
		w.upstream = append(w.upstream, a)
		w.lastReq = req
	}
	for id := range w.received {
		if id >= a {
			continue
		}
		fwd, ok := w.where[id]
		if !ok {
			w.violations = append(w.violations, fmt.Sprintf(
				"ack %d sent to source, but received task %d has not even been forwarded to a target yet", a, id))
			continue
		}
		// a target stream confirms proxy task p by sending an inclusive low watermark > p
		if w.streamAcked[fwd.stream] <= fwd.proxyID {
			w.violations = append(w.violations, fmt.Sprintf(
				"ack %d sent to source, but task %d (forwarded to target %s as proxy id %d) is unconfirmed: the target stream incarnation that got it has only acked %d",
				a, id, ClusterShardIDtoString(fwd.target), fwd.proxyID, w.streamAcked[fwd.stream]))
		}
	}
}

func (w *govcRWorld) violationCount() int {
	w.mu.Lock()
	defer w.mu.Unlock()
	return len(w.violations)
}

func (w *govcRWorld) upstreamCount() int {
	w.mu.Lock()
	defer w.mu.Unlock()
	return len(w.upstream)
}

// fake source stream: the receiver Recv()s batches from it and Send()s acks to it.
type govcRSourceStream struct {
	grpc.ClientStream
	ctx     context.Context
	world   *govcRWorld
	batches chan *adminservice.StreamWorkflowReplicationMessagesResponse
}

func (s *govcRSourceStream) Send(req *adminservice.StreamWorkflowReplicationMessagesRequest) error {
	s.world.onUpstreamAck(req)
	return nil
}

func (s *govcRSourceStream) Recv() (*adminservice.StreamWorkflowReplicationMessagesResponse, error) {
	select {
	case b := <-s.batches:
		s.world.mu.Lock()
		for _, t := range b.GetMessages().GetReplicationTasks() {
			s.world.received[t.SourceTaskId] = true
		}
		s.world.mu.Unlock()
		return b, nil
	case <-s.ctx.Done():
		return nil, io.EOF
	}
}

func (s *govcRSourceStream) CloseSend() error         { return nil }
func (s *govcRSourceStream) Context() context.Context { return s.ctx }

type govcRAdminClient struct {
	adminservice.AdminServiceClient
	stream *govcRSourceStream
}

func (c *govcRAdminClient) StreamWorkflowReplicationMessages(context.Context, ...grpc.CallOption) (adminservice.AdminService_StreamWorkflowReplicationMessagesClient, error) {
	return c.stream, nil
}

// govcRGot is one message a target stream received: its exclusive high watermark and number of tasks.
type govcRGot struct {
	high   int64
	nTasks int
}

// fake target stream: the sender Send()s batches to it and Recv()s acks from it.
type govcRTargetStream struct {
	grpc.ServerStream
	ctx   context.Context
	world *govcRWorld
	shard history.ClusterShardID
	acks  chan *adminservice.StreamWorkflowReplicationMessagesRequest
	mu    sync.Mutex
	got   []govcRGot
}

func (s *govcRTargetStream) Send(resp *adminservice.StreamWorkflowReplicationMessagesResponse) error {
	m := resp.GetMessages()
	if m == nil {
		return nil
	}
	s.world.mu.Lock()
	for _, t := range m.ReplicationTasks {
		orig, _ := strconv.ParseInt(t.RawTaskInfo.RunId, 10, 64)
		s.world.where[orig] = govcRFwd{target: s.shard, stream: s, proxyID: t.SourceTaskId}
	}
	s.world.mu.Unlock()
	s.mu.Lock()
	if m.ReplicationTasks != nil && len(m.ReplicationTasks) == 0 {
		// the sender's idle keepalive (built with an empty, non-nil task slice; it repeats the
		// last watermark and maps to nothing in the id ring): not a routed message, ignore
	} else {
		s.got = append(s.got, govcRGot{high: m.ExclusiveHighWatermark, nTasks: len(m.ReplicationTasks)})
	}
	s.mu.Unlock()
	return nil
}

func (s *govcRTargetStream) Recv() (*adminservice.StreamWorkflowReplicationMessagesRequest, error) {
	select {
	case r := <-s.acks:
		return r, nil
	case <-s.ctx.Done():
		return nil, io.EOF
	}
}

func (s *govcRTargetStream) Context() context.Context { return s.ctx }

// state returns the last exclusive high watermark, the total number of tasks and the
// number of watermark-only messages received so far, plus the message list.
func (s *govcRTargetStream) state() (high int64, nTasks int, nWatermarks int, msgs []govcRGot) {
	s.mu.Lock()
	defer s.mu.Unlock()
	for _, g := range s.got {
		high = g.high
		nTasks += g.nTasks
		if g.nTasks == 0 {
			nWatermarks++
		}
	}
	return high, nTasks, nWatermarks, append([]govcRGot(nil), s.got...)
}

// ack makes the target stream send SyncReplicationState{InclusiveLowWatermark: w},
// i.e. "every task with proxy id below w is done".
func (s *govcRTargetStream) ack(w int64) {
	s.world.mu.Lock()
	if w > s.world.targetAcked[s.shard] {
		s.world.targetAcked[s.shard] = w
	}
	if w > s.world.streamAcked[s] {
		s.world.streamAcked[s] = w
	}
	s.world.mu.Unlock()
	s.acks <- &adminservice.StreamWorkflowReplicationMessagesRequest{
		Attributes: &adminservice.StreamWorkflowReplicationMessagesRequest_SyncReplicationState{
			SyncReplicationState: &replicationv1.SyncReplicationState{InclusiveLowWatermark: w},
		},
	}
}

func govcRWaitFor(t *testing.T, what string, cond func() bool) {
	t.Helper()
	deadline := time.Now().Add(10 * time.Second)
	for time.Now().Before(deadline) {
		if cond() {
			return
		}
		time.Sleep(time.Millisecond)
	}
	t.Fatalf("timed out waiting for: %s", what)
}

// govcRWorkflowFor returns a workflow id that the receiver routes to the wanted target shard.
func govcRWorkflowFor(ns string, shard int32, shardCount int32) string {
	for i := 0; ; i++ {
		wid := fmt.Sprintf("wf-%d", i)
		if servercommon.WorkflowIDToHistoryShard(ns, wid, shardCount) == shard {
			return wid
		}
	}
}

func govcRTask(id int64, ns, wid string) *replicationv1.ReplicationTask {
	return &replicationv1.ReplicationTask{
		TaskType:     enumsspb.REPLICATION_TASK_TYPE_HISTORY_TASK,
		SourceTaskId: id,
		RawTaskInfo: &persistencespb.ReplicationTaskInfo{
			NamespaceId: ns,
			WorkflowId:  wid,
			RunId:       strconv.FormatInt(id, 10), // remembers the original id across the proxy's id rewriting
			TaskId:      id,
		},
	}
}

func govcRBatch(high int64, tasks ...*replicationv1.ReplicationTask) *adminservice.StreamWorkflowReplicationMessagesResponse {
	return &adminservice.StreamWorkflowReplicationMessagesResponse{
		Attributes: &adminservice.StreamWorkflowReplicationMessagesResponse_Messages{
			Messages: &replicationv1.WorkflowReplicationMessages{
				ReplicationTasks:       tasks,
				ExclusiveHighWatermark: high,
			},
		},
	}
}

type govcRRig struct {
	t        *testing.T
	world    *govcRWorld
	sm       ShardManager
	source   *govcRSourceStream
	srcShard history.ClusterShardID
	shutdown channel.ShutdownOnce
	ctx      context.Context
	nAcks    int // target acks issued through ackAndWait
}

// newGovcRRig starts a shard manager (routing mode, single proxy node) and a real
// proxyStreamReceiver for source shard {cluster 1, shard 1} that routes to cluster 2.
func newGovcRRig(t *testing.T, targetShardCount int32) *govcRRig {
	ctx, cancel := context.WithCancel(context.Background())
	shutdown := channel.NewShutdownOnce()
	t.Cleanup(func() { shutdown.Shutdown(); cancel() })

	sm := NewShardManager(nil, config.ShardCountConfig{Mode: config.ShardCountRouting}, encryption.TLSConfig{}, govcRLoggers{})
	if err := sm.Start(ctx); err != nil {
		t.Fatal(err)
	}
	world := newGovcRWorld()
	rig := &govcRRig{t: t, world: world, sm: sm, shutdown: shutdown, ctx: ctx,
		srcShard: history.ClusterShardID{ClusterID: 1, ShardID: 1}}
	rig.source = &govcRSourceStream{ctx: ctx, world: world,
		batches: make(chan *adminservice.StreamWorkflowReplicationMessagesResponse, 1024)}

	receiver := &proxyStreamReceiver{
		logger:          log.NewNoopLogger(),
		shardManager:    sm,
		adminClient:     &govcRAdminClient{stream: rig.source},
		localShardCount: targetShardCount,
		sourceShardID:   rig.srcShard,
		targetShardID:   history.ClusterShardID{ClusterID: 2, ShardID: 1},
		directionLabel:  "demo",
	}
	go receiver.Run(shutdown)
	govcRWaitFor(t, "receiver ack channel", func() bool { _, ok := sm.GetLocalAckChan(rig.srcShard); return ok })
	return rig
}

// connectTarget starts a real proxyStreamSender for target shard {cluster 2, shardID},
// exactly as streamRouting does when that target shard opens its stream to the proxy.
func (r *govcRRig) connectTarget(shardID int32) *govcRTargetStream {
	shard := history.ClusterShardID{ClusterID: 2, ShardID: shardID}
	ts := &govcRTargetStream{ctx: r.ctx, world: r.world, shard: shard,
		acks: make(chan *adminservice.StreamWorkflowReplicationMessagesRequest, 16)}
	sender := &proxyStreamSender{
		logger:         log.NewNoopLogger(),
		shardManager:   r.sm,
		sourceShardID:  history.ClusterShardID{ClusterID: 1, ShardID: shardID},
		targetShardID:  shard,
		directionLabel: "demo",
	}
	go sender.Run(ts, r.shutdown)
	govcRWaitFor(r.t, "sender send channel", func() bool { _, ok := r.sm.GetRemoteSendChan(shard); return ok })
	return ts
}

// connectTargetOwn is connectTarget with a shutdown latch and stream context of its own, so that this target stream
// can break (and reconnect as a new incarnation) while everything else keeps running.
func (r *govcRRig) connectTargetOwn(shardID int32) (*govcRTargetStream, func()) {
	shard := history.ClusterShardID{ClusterID: 2, ShardID: shardID}
	ctx, cancel := context.WithCancel(r.ctx)
	latch := channel.NewShutdownOnce()
	ts := &govcRTargetStream{ctx: ctx, world: r.world, shard: shard,
		acks: make(chan *adminservice.StreamWorkflowReplicationMessagesRequest, 16)}
	sender := &proxyStreamSender{
		logger:         log.NewNoopLogger(),
		shardManager:   r.sm,
		sourceShardID:  history.ClusterShardID{ClusterID: 1, ShardID: shardID},
		targetShardID:  shard,
		directionLabel: "demo",
	}
	done := make(chan struct{})
	go func() { sender.Run(ts, latch); close(done) }()
	govcRWaitFor(r.t, "sender send channel", func() bool { _, ok := r.sm.GetRemoteSendChan(shard); return ok })
	r.t.Cleanup(func() { latch.Shutdown(); cancel() })
	return ts, func() { cancel(); latch.Shutdown(); <-done }
}

// ackAndWait lets a target stream acknowledge and waits until the proxy has turned that
// into an acknowledgement to the source shard (in these scenarios every target ack does).
func (r *govcRRig) ackAndWait(ts *govcRTargetStream, w int64) {
	r.t.Helper()
	r.nAcks++
	want := r.nAcks
	if r.world.violationCount() > 0 {
		r.report() // already violated: stop here and report
	}
	ts.ack(w)
	govcRWaitFor(r.t, fmt.Sprintf("proxy to process ack %d from target %s", w, ClusterShardIDtoString(ts.shard)),
		func() bool { return r.world.upstreamCount() >= want })
}

func (r *govcRRig) report() {
	r.t.Helper()
	time.Sleep(50 * time.Millisecond) // let anything still in flight land
	r.world.mu.Lock()
	defer r.world.mu.Unlock()
	r.t.Logf("acks the proxy sent to the source shard, in order: %v", r.world.upstream)
	if n := len(r.world.violations); n > 0 {
		show := r.world.violations
		if n > 3 {
			show = show[:3]
		}
		for _, v := range show {
			r.t.Errorf("C01 violated: %s", v)
		}
		r.t.Fatalf("C01 violated for %d (ack, task) pairs", n)
	}
}

// ---------------------------------------------------------------- scenarios

func (r *govcRRig) violations() []string {
	time.Sleep(50 * time.Millisecond)
	r.world.mu.Lock()
	defer r.world.mu.Unlock()
	return append([]string(nil), r.world.violations...)
}

// D3: one source shard, two target shards, nobody fails. One batch holds task 5 (owned by target B) and task 6
// (owned by target A), exclusive high watermark 7. A confirms its task; B stays silent. The proxy must not
// acknowledge 6 to the source while task 5 is unconfirmed.
func govcScenarioSilentTarget(t *testing.T) []string {
	const ns = "ns-govc"
	rig := newGovcRRig(t, 2)
	widA := govcRWorkflowFor(ns, 1, 2)
	widB := govcRWorkflowFor(ns, 2, 2)
	A := rig.connectTarget(1)
	B := rig.connectTarget(2)
	rig.source.batches <- govcRBatch(7, govcRTask(5, ns, widB), govcRTask(6, ns, widA))
	govcRWaitFor(t, "A got task 6", func() bool { _, n, _, _ := A.state(); return n == 1 })
	govcRWaitFor(t, "B got task 5", func() bool { _, n, _, _ := B.state(); return n == 1 })
	A.ack(2) // A's task has proxy id 1; inclusive low watermark 2 confirms it
	deadline := time.Now().Add(2 * time.Second)
	for time.Now().Before(deadline) && rig.world.upstreamCount() == 0 {
		time.Sleep(5 * time.Millisecond)
	}
	_ = B
	return rig.violations()
}

// A well-behaved history: both targets acknowledge everything; no violation may be reported.
func govcScenarioAllAck(t *testing.T) []string {
	const ns = "ns-govc"
	rig := newGovcRRig(t, 2)
	widA := govcRWorkflowFor(ns, 1, 2)
	widB := govcRWorkflowFor(ns, 2, 2)
	A := rig.connectTarget(1)
	B := rig.connectTarget(2)
	rig.source.batches <- govcRBatch(1000)
	govcRWaitFor(t, "A got watermark", func() bool { _, _, w, _ := A.state(); return w == 1 })
	govcRWaitFor(t, "B got watermark", func() bool { _, _, w, _ := B.state(); return w == 1 })
	A.ack(1)
	B.ack(1)
	rig.source.batches <- govcRBatch(1003, govcRTask(1000, ns, widA), govcRTask(1001, ns, widB), govcRTask(1002, ns, widA))
	govcRWaitFor(t, "A got 2 tasks", func() bool { _, n, _, _ := A.state(); return n == 2 })
	govcRWaitFor(t, "B got 1 task", func() bool { _, n, _, _ := B.state(); return n == 1 })
	B.ack(3)
	A.ack(4)
	time.Sleep(100 * time.Millisecond)
	return rig.violations()
}

// D10: one source shard, one target shard. Task 10 is forwarded to the target stream, which breaks before confirming
// it. The target reconnects (new incarnation, empty id table, proxy ids restart). The source's next watermark-only
// batch is forwarded to the new incarnation, which acknowledges it. The proxy must not acknowledge past task 10.
func govcScenarioTargetBreak(t *testing.T) []string {
	const ns = "ns-govc"
	rig := newGovcRRig(t, 1)
	wid := govcRWorkflowFor(ns, 1, 1)
	A1, breakA1 := rig.connectTargetOwn(1)
	rig.source.batches <- govcRBatch(11, govcRTask(10, ns, wid))
	govcRWaitFor(t, "A1 got task 10", func() bool { _, n, _, _ := A1.state(); return n == 1 })
	breakA1() // the stream dies holding the unconfirmed task
	govcRWaitFor(t, "A1 unregistered", func() bool { _, ok := rig.sm.GetRemoteSendChan(A1.shard); return !ok })
	A2, _ := rig.connectTargetOwn(1)
	rig.source.batches <- govcRBatch(11)
	govcRWaitFor(t, "A2 got the watermark", func() bool { _, _, w, _ := A2.state(); return w >= 1 })
	_, _, _, msgs := A2.state()
	_ = msgs
	A2.ack(1 << 40) // the new incarnation confirms everything IT was sent
	deadline := time.Now().Add(2 * time.Second)
	for time.Now().Before(deadline) && rig.world.violationCount() == 0 {
		time.Sleep(5 * time.Millisecond)
	}
	return rig.violations()
}

func TestGovcReplayRoutingTargetBreak(t *testing.T) {
	v := govcScenarioTargetBreak(t)
	if len(v) == 0 {
		fmt.Println("REPLAY-OK no acknowledgement covered an unconfirmed task")
		return
	}
	for _, m := range v {
		fmt.Println("REPLAY-VIOLATION", m)
	}
}

func TestGovcReplayRoutingSilentTarget(t *testing.T) {
	v := govcScenarioSilentTarget(t)
	if len(v) == 0 {
		fmt.Println("REPLAY-OK no acknowledgement covered an unconfirmed task")
		return
	}
	for _, m := range v {
		fmt.Println("REPLAY-VIOLATION", m)
	}
}

func TestGovcBoundedRouting(t *testing.T) {
	n := 0
	var all []string
	for _, sc := range []func(*testing.T) []string{govcScenarioAllAck, govcScenarioSilentTarget} {
		n++
		all = append(all, sc(t)...)
	}
	fmt.Printf("BOUNDED-CASES %d routing histories (all targets acknowledge; one target silent)\n", n)
	for _, m := range all {
		fmt.Println("BOUNDED-VIOLATION", m)
	}
	if len(all) > 0 {
		t.Fail()
	}
}

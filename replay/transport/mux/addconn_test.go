package mux

// Replay / bounded stand-in for C10 (shutdown clause): a session handed to AddConnection after the manager's
// lifetime ended must end up closed. Real yamux sessions over net.Pipe. Injected with -overlay.

import (
	"context"
	"fmt"
	"net"
	"testing"
	"time"

	"github.com/hashicorp/yamux"
	"go.temporal.io/server/common/log"

	"github.com/temporalio/s2s-proxy/transport/mux/session"
)

func govcPipeSession(t *testing.T) (*yamux.Session, net.Conn, func()) {
	a, b := net.Pipe()
	cfg := yamux.DefaultConfig()
	cfg.EnableKeepAlive = false
	cfg.LogOutput = nil
	cfg.Logger = nil
	cfg.LogOutput = testWriter{}
	srv, err := yamux.Server(b, cfg)
	if err != nil {
		t.Fatal(err)
	}
	cli, err := yamux.Client(a, cfg)
	if err != nil {
		t.Fatal(err)
	}
	return cli, a, func() { _ = srv.Close(); _ = b.Close() }
}

type testWriter struct{}

func (testWriter) Write(p []byte) (int, error) { return len(p), nil }

func govcAddAfterShutdown(t *testing.T) string {
	ctx, cancel := context.WithCancel(context.Background())
	m := &multiMuxManager{lifetime: ctx, name: "govc", muxes: map[string]session.ManagedMuxSession{}, logger: log.NewNoopLogger()}
	cancel() // the manager's lifetime is over before the provider hands the session in
	sess, conn, cleanup := govcPipeSession(t)
	defer cleanup()
	m.AddConnection(sess, conn)
	deadline := time.Now().Add(2 * time.Second)
	for time.Now().Before(deadline) {
		if sess.IsClosed() {
			return ""
		}
		time.Sleep(10 * time.Millisecond)
	}
	m.muxesLock.RLock()
	n := len(m.muxes)
	m.muxesLock.RUnlock()
	return fmt.Sprintf("AddConnection after shutdown: session IsClosed()=%v after 2s, %d sessions registered -> the session is neither registered nor closed", sess.IsClosed(), n)
}

func TestGovcReplayAddConnection(t *testing.T) {
	if msg := govcAddAfterShutdown(t); msg != "" {
		fmt.Println("REPLAY-VIOLATION", msg)
		return
	}
	fmt.Println("REPLAY-OK the session handed in after shutdown was closed")
}

func TestGovcBoundedAddConnection(t *testing.T) {
	msg := govcAddAfterShutdown(t)
	fmt.Println("BOUNDED-CASES 1 scenario (AddConnection after lifetime cancellation, real yamux session over net.Pipe)")
	if msg != "" {
		fmt.Println("BOUNDED-VIOLATION", msg)
		t.Fail()
	}
}

package mux

// Replay for C10 (shutdown clause, provider loop): a connection the provider obtained must be closed when the loop
// gives up because the lifetime ended while the session was being set up / pinged. Injected with -overlay.

import (
	"context"
	"errors"
	"fmt"
	"net"
	"sync"
	"sync/atomic"
	"testing"
	"time"

	"github.com/hashicorp/yamux"
	"go.temporal.io/server/common/log"
)

type govcDiscard struct{}

func (govcDiscard) Write(p []byte) (int, error) { return len(p), nil }

type govcTrackedConn struct {
	net.Conn
	closed atomic.Bool
}

func (c *govcTrackedConn) Close() error { c.closed.Store(true); return c.Conn.Close() }

type govcOneConnProvider struct {
	mu     sync.Mutex
	conn   *govcTrackedConn
	peer   net.Conn
	handed chan struct{}
	block  <-chan struct{}
	n      int
}

var govcAlwaysClosed = func() chan struct{} { c := make(chan struct{}); close(c); return c }()

func (p *govcOneConnProvider) NewConnection() (net.Conn, error) {
	p.mu.Lock()
	p.n++
	first := p.n == 1
	p.mu.Unlock()
	if !first {
		<-p.block // later attempts wait for the end of the test
		return nil, errors.New("no more connections")
	}
	a, b := net.Pipe()
	p.conn = &govcTrackedConn{Conn: a}
	p.peer = b
	close(p.handed)
	return p.conn, nil
}
func (p *govcOneConnProvider) CloseCh() <-chan struct{} { return govcAlwaysClosed }
func (p *govcOneConnProvider) Address() string          { return "govc" }

// Scenario "ping": the peer accepts the connection but never answers the establishing ping; the lifetime ends while the
// provider is waiting; the ping then fails. Scenario "setup": the session constructor fails after the lifetime ended.
func govcProviderShutdownLeak(scenario string) string {
	ctx, cancel := context.WithCancel(context.Background())
	block := make(chan struct{})
	defer close(block)
	cp := &govcOneConnProvider{handed: make(chan struct{}), block: block}
	cfg := yamux.DefaultConfig()
	cfg.EnableKeepAlive = false
	cfg.ConnectionWriteTimeout = 400 * time.Millisecond
	cfg.LogOutput = govcDiscard{}
	var sess *yamux.Session
	sessionFn := func(c net.Conn) (*yamux.Session, error) {
		if scenario == "setup" {
			cancel()
			return nil, errors.New("invalid mux configuration")
		}
		s, err := yamux.Client(c, cfg)
		sess = s
		return s, err
	}
	p := NewMuxProvider(ctx, "govc", cp, sessionFn, 1, func(*yamux.Session, net.Conn) {}, []string{"a", "b", "c"}, log.NewNoopLogger())
	p.Start()
	<-cp.handed
	if scenario == "ping" {
		// swallow what the client writes so that the ping goes out, but never answer it
		go func() {
			buf := make([]byte, 64)
			for {
				if _, err := cp.peer.Read(buf); err != nil {
					return
				}
			}
		}()
		time.Sleep(100 * time.Millisecond)
		cancel() // shutdown while the establishing ping is outstanding
	}
	select {
	case <-p.CloseCh():
	case <-time.After(5 * time.Second):
		return ""
	}
	time.Sleep(50 * time.Millisecond)
	if !cp.conn.closed.Load() || (sess != nil && !sess.IsClosed()) {
		return fmt.Sprintf("scenario %q: the provider has shut down, but the connection it obtained is still open (conn closed=%v, yamux session closed=%v): it is never closed by anybody",
			scenario, cp.conn.closed.Load(), sess == nil || sess.IsClosed())
	}
	return ""
}

func TestGovcReplayProviderShutdownLeak(t *testing.T) {
	bad := false
	for _, sc := range []string{"ping", "setup"} {
		if m := govcProviderShutdownLeak(sc); m != "" {
			fmt.Println("REPLAY-VIOLATION", m)
			bad = true
		}
	}
	if !bad {
		fmt.Println("REPLAY-OK after shutdown every connection the provider obtained is closed")
	}
}

// ---- receiver role: a connection accepted at the very moment of shutdown ----

type govcOneShotListener struct {
	conn   *govcTrackedConn
	cancel context.CancelFunc
}

func (l *govcOneShotListener) Accept() (net.Conn, error) {
	l.cancel() // the lifetime ends while Accept is handing the connection back
	return l.conn, nil
}
func (l *govcOneShotListener) Close() error   { return nil }
func (l *govcOneShotListener) Addr() net.Addr { return &net.TCPAddr{} }

func govcAcceptRacesShutdown() string {
	ctx, cancel := context.WithCancel(context.Background())
	a, b := net.Pipe()
	defer b.Close()
	tc := &govcTrackedConn{Conn: a}
	r := &receivingConnProvider{listener: &govcOneShotListener{conn: tc, cancel: cancel}, tlsWrapper: func(c net.Conn) net.Conn { return c },
		logger: log.NewNoopLogger(), metricLabels: []string{"a", "b", "c"}, lifetime: ctx}
	conn, err := r.NewConnection()
	if err != nil && conn == nil && !tc.closed.Load() {
		return fmt.Sprintf("the listener accepted a connection while the provider was shutting down; NewConnection returned (%v, %v) and the accepted connection was left open: nobody can close it any more", conn, err)
	}
	return ""
}

func TestGovcReplayAcceptRacesShutdown(t *testing.T) {
	if m := govcAcceptRacesShutdown(); m != "" {
		fmt.Println("REPLAY-VIOLATION", m)
		return
	}
	fmt.Println("REPLAY-OK a connection accepted during shutdown is closed")
}

import Mathlib.Data.Int.GCD
-- prelude axiom @mod_ring_distinct: two positions less than n apart occupy different ring slots
theorem mod_ring_distinct (a c n : Int) (_h0 : 0 ≤ a) (h1 : a < c) (h2 : c - a < n) : a % n ≠ c % n := by
  intro h
  have hd : n ∣ c - a := by
    have : (c - a) % n = 0 := by
      rw [Int.sub_emod, h.symm, Int.sub_self, Int.zero_emod]
    exact Int.dvd_of_emod_eq_zero this
  have hpos : 0 < c - a := by omega
  have := Int.le_of_dvd hpos hd
  omega

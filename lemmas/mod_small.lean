-- prelude axiom @mod_small
theorem mod_small (a n : Int) (h0 : 0 ≤ a) (h1 : a < n) : a % n = a :=
  Int.emod_eq_of_lt h0 h1

import Mathlib.Data.Nat.GCD.Basic
-- the contract-language spec function sgcd (Euclid's recursion) is the greatest common divisor
def sgcd : Nat → Nat → Nat
  | a, 0 => a
  | a, (b+1) => sgcd (b+1) (a % (b+1))
termination_by _ b => b
decreasing_by exact Nat.mod_lt _ (Nat.succ_pos _)

theorem sgcd_eq_gcd : ∀ (b a : Nat), sgcd a b = Nat.gcd a b := by
  intro b
  induction b using Nat.strong_induction_on with
  | _ b ih =>
    intro a
    cases b with
    | zero => simp [sgcd]
    | succ k =>
      rw [sgcd, ih (a % (k+1)) (Nat.mod_lt _ (Nat.succ_pos _)) (k+1)]
      rw [Nat.gcd_comm a (k+1), Nat.gcd_rec (k+1) a, Nat.gcd_comm]

-- prelude axiom @mod_add_mod
theorem mod_add_mod (a c n : Int) (_h : n > 0) : (a % n + c) % n = (a + c) % n :=
  Int.emod_add_emod a n c

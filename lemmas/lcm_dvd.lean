import Mathlib.Data.Nat.GCD.Basic
-- C07 glue: a*b/gcd(a,b) (what common.LCM returns by contract) is a common multiple
theorem lcm_dvd (a b : Nat) : a ∣ a * b / Nat.gcd a b ∧ b ∣ a * b / Nat.gcd a b := by
  have h : a * b / Nat.gcd a b = Nat.lcm a b := rfl
  rw [h]
  exact ⟨Nat.dvd_lcm_left a b, Nat.dvd_lcm_right a b⟩

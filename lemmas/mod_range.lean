-- prelude axiom @mod_range: for n > 0 the Euclidean remainder lies in [0, n)
theorem mod_range (a n : Int) (h : n > 0) : 0 ≤ a % n ∧ a % n < n :=
  ⟨Int.emod_nonneg a (Int.ne_of_gt h), Int.emod_lt_of_pos a h⟩

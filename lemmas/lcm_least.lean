import Mathlib.Data.Nat.GCD.Basic
-- C07 glue: ... and the least one (divides every common multiple)
theorem lcm_least (a b m : Nat) (ha : a ∣ m) (hb : b ∣ m) : a * b / Nat.gcd a b ∣ m := by
  have h : a * b / Nat.gcd a b = Nat.lcm a b := rfl
  rw [h]
  exact Nat.lcm_dvd ha hb

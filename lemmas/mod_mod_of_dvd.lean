import Mathlib.Data.Int.GCD
-- C07 glue: a workflow hashing to LCM shard (h % L) belongs, under the serving cluster's own count c (c ∣ L), to the
-- shard the proxy maps it to: (h % L) % c = h % c
theorem mod_mod_of_dvd (h L c : Int) (hd : c ∣ L) : (h % L) % c = h % c :=
  Int.emod_emod_of_dvd h hd

package main

// Calls: builtins, conversions, contracts (assert pre / havoc / assume post), inlining, locks, defers.

import (
	"fmt"
	"go/ast"
	"go/parser"
	"go/token"
	"go/types"
	"sort"
	"strings"
)

func (fc *FnCtx) calleeOf(call *ast.CallExpr) types.Object {
	fun := ast.Unparen(call.Fun)
	switch f := fun.(type) {
	case *ast.Ident:
		return fc.info.Uses[f]
	case *ast.SelectorExpr:
		if sel, ok := fc.info.Selections[f]; ok {
			return sel.Obj()
		}
		return fc.info.Uses[f.Sel]
	case *ast.IndexExpr:
		if id, ok := f.X.(*ast.Ident); ok {
			return fc.info.Uses[id]
		}
		if se, ok := f.X.(*ast.SelectorExpr); ok {
			return fc.info.Uses[se.Sel]
		}
	case *ast.IndexListExpr:
		if id, ok := f.X.(*ast.Ident); ok {
			return fc.info.Uses[id]
		}
		if se, ok := f.X.(*ast.SelectorExpr); ok {
			return fc.info.Uses[se.Sel]
		}
	}
	return nil
}

// funcKey gives the contract key of a function relative to package p (nil: always qualified)
func funcKey(f *types.Func, p *types.Package) string {
	q := func(x *types.Package) string {
		if x == p {
			return ""
		}
		return x.Name()
	}
	sig := f.Type().(*types.Signature)
	if r := sig.Recv(); r != nil {
		rt := r.Type()
		// strip type arguments of generic receivers
		s := types.TypeString(rt, q)
		if i := strings.Index(s, "["); i >= 0 {
			s = s[:i]
		}
		return "(" + s + ")." + f.Name()
	}
	if f.Pkg() != nil && f.Pkg() != p {
		return f.Pkg().Name() + "." + f.Name()
	}
	return f.Name()
}

func (eng *Engine) contractFor(f *types.Func, from *Pkg) *Contract {
	f = f.Origin()
	// 1. the function's own package contract file
	if f.Pkg() != nil {
		if p := eng.pkgs[f.Pkg().Path()]; p != nil && p.cf != nil {
			if c, ok := p.cf.Contracts[funcKey(f, f.Pkg())]; ok {
				return c
			}
		}
	}
	// 2. extern contracts in the caller's package file, then the prelude (qualified keys)
	k := funcKey(f, nil)
	if from != nil && from.cf != nil {
		if c, ok := from.cf.Contracts[k]; ok {
			return c
		}
		// the caller's file may name the package by its import alias (e.g. servercommon.F)
		if f.Pkg() != nil {
			for alias, path := range from.importAlias {
				if path == f.Pkg().Path() && f.Type().(*types.Signature).Recv() == nil {
					if c, ok := from.cf.Contracts[alias+"."+f.Name()]; ok {
						return c
					}
				}
			}
		}
		if f.Pkg() == from.Types {
			if c, ok := from.cf.Contracts[funcKey(f, from.Types)]; ok {
				return c
			}
		}
	}
	if eng.prelude != nil {
		if c, ok := eng.prelude.Contracts[k]; ok {
			return c
		}
	}
	var paths []string
	for path := range eng.pkgs {
		paths = append(paths, path)
	}
	sort.Strings(paths)
	for _, path := range paths {
		if q := eng.pkgs[path]; q.cf != nil {
			if c, ok := q.cf.Contracts[k]; ok && c.Extern {
				return c
			}
		}
	}
	return nil
}

var quietPkgs = map[string]bool{
	"go.temporal.io/server/common/log":     true,
	"go.temporal.io/server/common/log/tag": true,
	"go.temporal.io/server/common/metrics": true,
	"github.com/prometheus/client_golang/prometheus": true,
	"github.com/temporalio/s2s-proxy/metrics":        true,
	"log":     true,
	"log/slog": true,
}

func (fc *FnCtx) isQuiet(f *types.Func) bool {
	if f.Pkg() == nil {
		return false
	}
	if quietPkgs[f.Pkg().Path()] {
		return true
	}
	if f.Pkg().Path() == "fmt" {
		switch f.Name() {
		case "Sprintf", "Sprint", "Sprintln", "Errorf", "Printf", "Println", "Fprintf":
			return true
		}
	}
	if f.Pkg().Path() == "time" {
		switch f.Name() {
		case "Now", "Since", "Sleep", "After", "NewTicker", "Stop", "NewTimer", "Until", "Reset", "Tick", "AfterFunc":
			return true
		}
	}
	sig := f.Type().(*types.Signature)
	if r := sig.Recv(); r != nil {
		if n := namedOf(r.Type()); n != nil {
			switch n.Obj().Name() {
			case "StreamTracker":
				return true
			case "WaitGroup":
				return true
			}
			if n.Obj().Pkg() != nil && n.Obj().Pkg().Path() == "time" {
				return false
			}
		}
	}
	return false
}

func (fc *FnCtx) execCallStmt(st *State, call *ast.CallExpr) []Outcome {
	// panic(...)
	if id, ok := ast.Unparen(call.Fun).(*ast.Ident); ok {
		if b, ok := fc.info.Uses[id].(*types.Builtin); ok && b.Name() == "panic" {
			if st.recov > 0 || (fc.root().ct != nil && fc.root().ct.PanicsOK) {
				return []Outcome{{kind: oPanic, st: st}}
			}
			fc.assert(st, "panic", "explicit", call.Pos(), "false", "explicit panic is unreachable")
			return []Outcome{{kind: oPanic, st: st}}
		}
	}
	// immediately invoked closure
	if lit, ok := ast.Unparen(call.Fun).(*ast.FuncLit); ok && len(call.Args) == 0 {
		return fc.runClosureBody(st, lit, fc)
	}
	fc.evalCall(st, call)
	return normal(st)
}

// runClosureBody executes a parameterless closure literal inline.
func (fc *FnCtx) runClosureBody(st *State, lit *ast.FuncLit, owner *FnCtx) []Outcome {
	saveRes, saveDef := owner.results, st.defers
	owner.results = nil
	st.defers = nil
	// does the literal open a recover scope?
	opensRecover := false
	if len(lit.Body.List) > 0 {
		if ds, ok := lit.Body.List[0].(*ast.DeferStmt); ok {
			if dl, ok := ds.Call.Fun.(*ast.FuncLit); ok && containsRecover(dl.Body) {
				opensRecover = true
			}
		}
	}
	if opensRecover {
		st.recov++
	}
	outs := owner.execBlock(st, lit.Body.List)
	owner.results = saveRes
	var res []Outcome
	for _, o := range outs {
		switch o.kind {
		case oNormal, oReturn:
			if opensRecover {
				o.st.recov--
			}
			outs2 := owner.runDefers(o.st, 0)
			for _, o2 := range outs2 {
				o2.st.defers = saveDef
				o2.kind = oNormal
				res = append(res, o2)
			}
		case oPanic:
			if opensRecover {
				o.st.recov--
				// deferred recover() swallows the panic; run the deferred functions
				outs2 := owner.runDefers(o.st, 0)
				for _, o2 := range outs2 {
					o2.st.defers = saveDef
					o2.kind = oNormal
					res = append(res, o2)
				}
			} else {
				o.st.defers = append(append([]deferred(nil), saveDef...), o.st.defers...)
				res = append(res, o)
			}
		default:
			res = append(res, o)
		}
	}
	return fc.joinNormal(res)
}

func containsRecover(n ast.Node) bool {
	found := false
	ast.Inspect(n, func(x ast.Node) bool {
		if c, ok := x.(*ast.CallExpr); ok {
			if id, ok := c.Fun.(*ast.Ident); ok && id.Name == "recover" {
				found = true
			}
		}
		return !found
	})
	return found
}

func (fc *FnCtx) pushDefer(st *State, call *ast.CallExpr) {
	d := deferred{call: call, fc: fc}
	if lit, ok := ast.Unparen(call.Fun).(*ast.FuncLit); ok {
		d.lit = lit
	} else {
		// evaluate receiver and arguments now (Go semantics)
		if se, ok := ast.Unparen(call.Fun).(*ast.SelectorExpr); ok {
			if sel, ok := fc.info.Selections[se]; ok && sel.Kind() == types.MethodVal {
				if !fc.isLockCall(call) && !fc.isQuietCall(call) {
					r := fc.eval(st, se.X)
					d.recv = &r
				}
			}
		}
		if !fc.isLockCall(call) && !fc.isQuietCall(call) {
			for _, a := range call.Args {
				d.args = append(d.args, fc.eval(st, a))
			}
		}
	}
	st.defers = append(st.defers, d)
}

func (fc *FnCtx) isQuietCall(call *ast.CallExpr) bool {
	if f, ok := fc.calleeOf(call).(*types.Func); ok {
		return fc.isQuiet(f)
	}
	return false
}

// runDefers runs the deferred calls above `keep` in LIFO order.
func (fc *FnCtx) runDefers(st *State, keep int) []Outcome {
	cur := []*State{st}
	for {
		var next []*State
		progressed := false
		for _, s := range cur {
			if len(s.defers) <= keep {
				next = append(next, s)
				continue
			}
			progressed = true
			d := s.defers[len(s.defers)-1]
			s.defers = s.defers[:len(s.defers)-1]
			var outs []Outcome
			if d.lit != nil {
				saved := s.defers
				outs = d.fc.runClosureBody(s, d.lit, d.fc)
				for i := range outs {
					outs[i].st.defers = saved
				}
			} else {
				outs = d.fc.execDeferredCall(s, d)
			}
			for _, o := range outs {
				next = append(next, o.st)
			}
		}
		cur = next
		if !progressed {
			break
		}
	}
	var res []Outcome
	for _, s := range cur {
		res = append(res, Outcome{kind: oNormal, st: s})
	}
	return res
}

func (fc *FnCtx) execDeferredCall(st *State, d deferred) []Outcome {
	if fc.isLockCall(d.call) || fc.isQuietCall(d.call) {
		fc.evalCall(st, d.call)
		return normal(st)
	}
	fc.evalCallWith(st, d.call, d.recv, d.args)
	return normal(st)
}

// ---------- locks ----------

func (fc *FnCtx) isLockCall(call *ast.CallExpr) bool {
	se, ok := ast.Unparen(call.Fun).(*ast.SelectorExpr)
	if !ok {
		return false
	}
	f, ok := fc.info.Uses[se.Sel].(*types.Func)
	if !ok {
		if sel, ok2 := fc.info.Selections[se]; ok2 {
			f, _ = sel.Obj().(*types.Func)
		}
	}
	if f == nil || f.Pkg() == nil || f.Pkg().Path() != "sync" {
		return false
	}
	switch f.Name() {
	case "Lock", "Unlock", "RLock", "RUnlock":
		r := f.Type().(*types.Signature).Recv()
		if r == nil {
			return false
		}
		n := namedOf(r.Type())
		return n != nil && (n.Obj().Name() == "Mutex" || n.Obj().Name() == "RWMutex")
	}
	return false
}

// lockTarget resolves `x.mu` of `x.mu.Lock()` into (base value, field name)
func (fc *FnCtx) lockTarget(st *State, call *ast.CallExpr) (Val, string, bool) {
	se := ast.Unparen(call.Fun).(*ast.SelectorExpr)
	mx, ok := ast.Unparen(se.X).(*ast.SelectorExpr)
	if !ok {
		return Val{}, "", false
	}
	base := fc.eval(st, mx.X)
	return base, mx.Sel.Name, true
}

func (fc *FnCtx) execLock(st *State, call *ast.CallExpr) {
	se := ast.Unparen(call.Fun).(*ast.SelectorExpr)
	op := se.Sel.Name
	base, field, ok := fc.lockTarget(st, call)
	if !ok {
		fc.warn("lock operation on %s is not tracked", exprText(se.X))
		return
	}
	id := lockID(base, field)
	g := fc.eng.guardFor(base.Ty, field)
	switch op {
	case "Lock", "RLock":
		_, held := st.locks[id]
		if held {
			fc.assert(st, "lock", "not-held:"+exprText(se.X), call.Pos(), "false", "lock acquired while already held (self-deadlock)")
		}
		mode := "w"
		if op == "RLock" {
			mode = "r"
		}
		st.locks[id] = mode
		if g != nil {
			fc.lockHavoc(st, base, g)
		}
	case "Unlock", "RUnlock":
		if _, held := st.locks[id]; !held {
			fc.assert(st, "lock", "held:"+exprText(se.X), call.Pos(), "false", "unlock of a lock that is not held")
		}
		if g != nil && op == "Unlock" {
			for i, inv := range g.Inv {
				env := fc.specEnvFor(st, g.Pkg)
				env.old = fc.root().entry
				env.scope["self"] = base
				v := fc.safeSpec(env, inv.E, inv.Text)
				name := inv.Label
				if name == "" {
					name = fmt.Sprintf("%d", i+1)
				}
				fc.assert(st, "lockinv", g.Mutex+"."+name, call.Pos(), v.T, "lock invariant re-established at unlock: "+inv.Text)
			}
		}
		delete(st.locks, id)
	}
}

// lockHavoc: other goroutines may have changed the guarded state while the lock was free.
func (fc *FnCtx) lockHavoc(st *State, base Val, g *Guard) {
	pre := st.clone()
	sT, su, _ := derefStruct(base.Ty)
	if su == nil {
		return
	}
	for _, fn := range g.Fields {
		deep := strings.HasPrefix(fn, "*")
		fn = strings.TrimPrefix(fn, "*")
		for i := 0; i < su.NumFields(); i++ {
			f := su.Field(i)
			if f.Name() != fn {
				continue
			}
			if !deep {
				k, ks := fc.fieldKey(sT, f)
				fc.readField(st, base, i) // typing facts about the value before the acquisition (used by rely)
				nv := fc.freshVal(st, "lk_"+fn, f.Type())
				fc.setComp(st, k, ks, sto(fc.comp(st, k, ks), base.T, nv.T))
				continue
			}
			// deep: contents of the object the field refers to
			cur := fc.readField(st, base, i)
			fc.havocReachable(st, cur)
		}
	}
	for _, inv := range g.Inv {
		env := fc.specEnvFor(st, g.Pkg)
		env.old = pre
		env.scope["self"] = base
		st.assume(fc.safeSpec(env, inv.E, inv.Text).T)
	}
	for _, r := range g.Rely {
		env := fc.specEnvFor(st, g.Pkg)
		env.old = pre
		env.scope["self"] = base
		env.oldScope["self"] = base
		st.assume(fc.safeSpec(env, r.E, r.Text).T)
	}
}

// havocReachable havocs the direct contents of a map / slice / pointed-to struct value
func (fc *FnCtx) havocReachable(st *State, v Val) {
	switch u := v.Ty.Underlying().(type) {
	case *types.Map:
		dk, ds, vk, vs := fc.mapKeys(u)
		ks, es := fc.smt.sortOf(u.Key()), fc.smt.sortOf(u.Elem())
		fc.setComp(st, dk, ds, sto(fc.comp(st, dk, ds), v.T, fc.smt.fresh("lkdom", "(Array "+ks+" Bool)")))
		fc.setComp(st, vk, vs, sto(fc.comp(st, vk, vs), v.T, fc.smt.fresh("lkval", "(Array "+ks+" "+es+")")))
		nl := fc.smt.fresh("lklen", "Int")
		st.assume("(>= " + nl + " 0)")
		fc.setComp(st, mapLenKey, mapLenSort, sto(fc.comp(st, mapLenKey, mapLenSort), v.T, nl))
	case *types.Slice:
		k, ks := fc.elemsKey(u.Elem())
		es := fc.smt.sortOf(u.Elem())
		fc.setComp(st, k, ks, sto(fc.comp(st, k, ks), "(s_base "+v.T+")", fc.smt.fresh("lkrow", "(Array Int "+es+")")))
	case *types.Pointer:
		sT, su, _ := derefStruct(v.Ty)
		if su == nil {
			return
		}
		for i := 0; i < su.NumFields(); i++ {
			f := su.Field(i)
			k, ks := fc.fieldKey(sT, f)
			nv := fc.freshVal(st, "lk_"+f.Name(), f.Type())
			fc.setComp(st, k, ks, sto(fc.comp(st, k, ks), v.T, nv.T))
			if _, isSl := f.Type().Underlying().(*types.Slice); isSl {
				fc.havocReachable(st, fc.readField(st, v, i))
			}
		}
	}
}

func (eng *Engine) guardFor(t types.Type, mutex string) *Guard {
	n := namedOf(t)
	if n == nil {
		return nil
	}
	for _, g := range eng.guards {
		if g.Mutex == mutex && g.Type == n.Obj().Name() && (n.Obj().Pkg() == nil || n.Obj().Pkg().Path() == g.Pkg) {
			return g
		}
	}
	return nil
}

func (eng *Engine) chanInvFor(fc *FnCtx, elem types.Type) *ChanInv {
	for _, ci := range eng.chanInvsFor(elem) {
		if !ci.Assume {
			return ci
		}
	}
	return nil
}

func (eng *Engine) chanInvsFor(elem types.Type) []*ChanInv {
	var out []*ChanInv
	for _, ci := range eng.chanInvs {
		t := eng.resolveType(eng.pkgs[ci.Pkg], ci.Elem)
		if t != nil && types.Identical(t, elem) {
			out = append(out, ci)
		}
	}
	return out
}

// ---------- calls ----------

func (fc *FnCtx) evalCall(st *State, call *ast.CallExpr) []Val {
	return fc.evalCallWith(st, call, nil, nil)
}

func (fc *FnCtx) resultTypes(call *ast.CallExpr) []types.Type {
	t := fc.typeOf(call)
	if t == nil {
		return nil
	}
	if tup, ok := t.(*types.Tuple); ok {
		var out []types.Type
		for i := 0; i < tup.Len(); i++ {
			out = append(out, tup.At(i).Type())
		}
		return out
	}
	return []types.Type{t}
}

func (fc *FnCtx) freshResults(st *State, call *ast.CallExpr, name string) []Val {
	var out []Val
	for _, t := range fc.resultTypes(call) {
		out = append(out, fc.freshVal(st, name, t))
	}
	return out
}

func (fc *FnCtx) evalCallWith(st *State, call *ast.CallExpr, preRecv *Val, preArgs []Val) []Val {
	fun := ast.Unparen(call.Fun)
	// conversion?
	if tv, ok := fc.info.Types[fun]; ok && tv.IsType() {
		return []Val{fc.evalConversion(st, call, tv.Type)}
	}
	obj := fc.calleeOf(call)
	if b, ok := obj.(*types.Builtin); ok {
		return fc.evalBuiltin(st, call, b.Name())
	}
	if fc.isLockCall(call) {
		fc.execLock(st, call)
		return nil
	}
	f, _ := obj.(*types.Func)
	if f == nil {
		// call of a function value (closure variable, func-typed field / parameter)
		return fc.evalFuncValueCall(st, call, preArgs)
	}
	if vs, ok := fc.atomicCall(st, call, f); ok {
		return vs
	}
	fc.bumpCall(st, f.Name())
	if w := fc.wakeupExpr(); w != "" {
		// wakeup clause: `<latch>.IsShutdown()` consults the latch; time.Sleep may only follow such a look in the same
		// loop iteration (a worker that sleeps in a loop without looking at its latch outlives its stream)
		if se, ok := fun.(*ast.SelectorExpr); ok {
			if f.Name() == "IsShutdown" && normText(exprText(se.X))+".Channel()" == w {
				st.latchSeen = true
			}
			if f.Name() == "Sleep" && f.Pkg() != nil && f.Pkg().Path() == "time" && fc.inLoop > 0 {
				fc.nSleep++
				goal := "false"
				if st.latchSeen {
					goal = "true"
				}
				fc.assertNamed(st, "wakeup", fmt.Sprintf("sleep.%d", fc.sleepOrdinal(call)), goal, "time.Sleep in a loop is preceded, in the same iteration, by a look at "+w, call.Pos())
			}
		}
	}
	if fc.isQuiet(f) && fc.lookupContract(f) == nil {
		fc.noteTrusted("quiet (no effect on proxy state, unconstrained result): " + funcKey(f, nil))
		fc.checkCallPre(st, call, f, nil, nil)
		if f.Name() == "Wait" && fc.root().spawned {
			// join point: whatever the goroutines spawned by this function did to the heap is visible from here on
			fc.havocAll(st)
		}
		rs := fc.freshResults(st, call, "q_"+f.Name())
		if f.Pkg() != nil && f.Pkg().Path() == "fmt" && f.Name() == "Errorf" && len(rs) == 1 {
			st.assume("(> " + rs[0].T + " 0)")
		}
		// error constructors return a non-nil error (errors.New, serviceerror.NewXxx)
		if f.Pkg() != nil && len(rs) == 1 && strings.HasPrefix(f.Name(), "New") &&
			(f.Pkg().Path() == "errors" || strings.HasSuffix(f.Pkg().Path(), "/serviceerror")) {
			if _, isIface := rs[0].Ty.Underlying().(*types.Interface); isIface || true {
				st.assume("(> " + rs[0].T + " 0)")
			}
		}
		return rs
	}
	// receiver and arguments
	var recv *Val
	var recvExpr ast.Expr
	sig := f.Type().(*types.Signature)
	if se, ok := fun.(*ast.SelectorExpr); ok {
		if sel, ok := fc.info.Selections[se]; ok && sel.Kind() == types.MethodVal {
			recvExpr = se.X
			if preRecv != nil {
				recv = preRecv
			} else {
				r := fc.eval(st, se.X)
				// implicit embedded-field path
				idx := sel.Index()
				if len(idx) > 1 {
					r = fc.walkFields(st, r, idx[:len(idx)-1], se.X)
				}
				// auto address / deref to match the receiver type
				if rs := sig.Recv(); rs != nil {
					_, wantPtr := rs.Type().Underlying().(*types.Pointer)
					_, havePtr := r.Ty.Underlying().(*types.Pointer)
					if wantPtr && !havePtr && !isInterface(rs.Type()) {
						// pure / quiet methods of an addressable value are functions of the value itself
						if pc := fc.eng.contractFor(f, fc.pkg); pc == nil || !(pc.Pure || pc.Quiet) {
							r = fc.addrOf(st, se.X)
						}
					} else if !wantPtr && havePtr && !isInterface(rs.Type()) {
						fc.nilCheck(st, r, se.X)
						r = fc.deref(st, r)
					}
				}
				recv = &r
			}
		}
	}
	if pg, ok := fc.protoGetter(f); ok && recv != nil {
		fc.checkCallPre(st, call, f, recv, []Val{})
		return []Val{fc.evalProtoGetter(st, *recv, pg, fc.resultTypes(call)[0])}
	}
	var args []Val
	if preArgs != nil {
		args = preArgs
	} else {
		args = fc.evalArgs(st, call, sig)
	}
	fc.checkCallPre(st, call, f, recv, args)
	if v, ok := fc.knownLibCall(st, call, f, recv, args); ok {
		fc.noteTrusted("library model: " + funcKey(f, nil))
		return v
	}
	ct := fc.lookupContract(f)
	if ct != nil {
		if ct.Extern {
			kind := "extern contract (assumed)"
			if ct.Pure {
				kind = "extern pure (deterministic function of its arguments, no effect)"
			} else if ct.Quiet {
				kind = "extern quiet (no effect on proxy state, unconstrained result)"
			}
			note := kind + ": " + ct.Key
			if ct.Trusted != "" {
				note += " -- " + ct.Trusted
			}
			fc.noteTrusted(note)
		}
		return fc.applyContract(st, call, f, ct, recv, args)
	}
	// inline a contract-less function whose body we have
	if decl := fc.eng.declOf(f); decl != nil && decl.Body != nil && fc.depth < 3 && !fc.onInlineStack(f) {
		return fc.inlineCall(st, call, f, decl, recv, args)
	}
	// interface method with statically unknown target or external function: unknown effect
	fc.warn("unmodelled call %s (extern key: %s): heap havocked", f.FullName(), funcKey(f, nil))
	_ = recvExpr
	fc.havocAll(st)
	return fc.freshResults(st, call, "u_"+f.Name())
}

func (fc *FnCtx) onInlineStack(f *types.Func) bool {
	for c := fc; c != nil; c = c.parent {
		if c.fn == f {
			return true
		}
	}
	return false
}

func (fc *FnCtx) evalArgs(st *State, call *ast.CallExpr, sig *types.Signature) []Val {
	var args []Val
	np := sig.Params().Len()
	if len(call.Args) == 1 {
		if _, isTuple := fc.typeOf(call.Args[0]).(*types.Tuple); isTuple {
			// f(g()) with multi-value g
			return fc.evalMulti(st, call.Args[0], np)
		}
	}
	for i, a := range call.Args {
		v := fc.eval(st, a)
		var pt types.Type
		if sig.Variadic() && i >= np-1 {
			if call.Ellipsis.IsValid() {
				pt = sig.Params().At(np - 1).Type()
			} else {
				pt = sig.Params().At(np - 1).Type().(*types.Slice).Elem()
			}
		} else if i < np {
			pt = sig.Params().At(i).Type()
		}
		if pt != nil {
			if _, isTP := types.Unalias(pt).(*types.TypeParam); !isTP {
				v = fc.convertAssign(st, v, pt)
			}
		}
		args = append(args, v)
	}
	if sig.Variadic() && !call.Ellipsis.IsValid() {
		// pack variadic arguments into a slice
		fixed := np - 1
		elemT := sig.Params().At(np - 1).Type().(*types.Slice).Elem()
		extra := args[fixed:]
		var sl Val
		if len(extra) == 0 {
			sl = Val{"(mk_Slice 0 0 0 0)", sig.Params().At(np - 1).Type()}
		} else {
			base := fc.alloc(st, "varargs")
			sl = Val{fmt.Sprintf("(mk_Slice %s 0 %d %d)", base, len(extra), len(extra)), sig.Params().At(np - 1).Type()}
			for i, x := range extra {
				fc.sliceStore(st, sl, fmt.Sprintf("%d", i), elemT, x.T)
			}
		}
		args = append(append([]Val(nil), args[:fixed]...), sl)
	}
	return args
}

func (fc *FnCtx) evalConversion(st *State, call *ast.CallExpr, to types.Type) Val {
	v := fc.eval(st, call.Args[0])
	from := v.Ty
	switch {
	case isIntegerType(to) && isIntegerType(from):
		r := Val{v.T, to}
		if lo, hi, ok := intRange(to); ok {
			flo, fhi, fok := intRange(from)
			if !(fok && flo == lo && fhi == hi) && !subRange(from, to) {
				fc.assert(st, "overflow", "conv:"+exprText(call), call.Pos(), fmt.Sprintf("(and (<= %s %s) (<= %s %s))", lo, v.T, v.T, hi), "integer conversion keeps the value")
			}
		}
		return r
	case isInterface(to) && !isInterface(from):
		return fc.box(st, v, to)
	case isStringType(to) && isStringType(from):
		return Val{v.T, to}
	case isStringType(to) || isStringType(from):
		n := "conv_" + sanitize(fc.smt.sortOf(from)) + "_to_" + sanitize(fc.smt.sortOf(to))
		fc.smt.declare(n, fmt.Sprintf("(declare-fun %s (%s) %s)", n, fc.smt.sortOf(from), fc.smt.sortOf(to)))
		return Val{"(" + n + " " + v.T + ")", to}
	}
	if fc.smt.sortOf(from) == fc.smt.sortOf(to) {
		return Val{v.T, to}
	}
	if isIntegerType(from) || isIntegerType(to) {
		n := "conv_" + sanitize(fc.smt.sortOf(from)) + "_to_" + sanitize(fc.smt.sortOf(to))
		fc.smt.declare(n, fmt.Sprintf("(declare-fun %s (%s) %s)", n, fc.smt.sortOf(from), fc.smt.sortOf(to)))
		r := Val{"(" + n + " " + v.T + ")", to}
		fc.assumeTyped(st, r)
		return r
	}
	fc.unsupp(call.Pos(), "conversion %s -> %s", from, to)
	return Val{}
}

func subRange(from, to types.Type) bool {
	fb, ok1 := types.Unalias(from).Underlying().(*types.Basic)
	tb, ok2 := types.Unalias(to).Underlying().(*types.Basic)
	if !ok1 || !ok2 {
		return false
	}
	size := func(k types.BasicKind) (int, bool) {
		switch k {
		case types.Int8:
			return 8, true
		case types.Int16:
			return 16, true
		case types.Int32:
			return 32, true
		case types.Int, types.Int64:
			return 64, true
		case types.Uint8:
			return 8, false
		case types.Uint16:
			return 16, false
		case types.Uint32:
			return 32, false
		case types.Uint, types.Uint64, types.Uintptr:
			return 64, false
		}
		return 0, true
	}
	fs, fsig := size(fb.Kind())
	ts, tsig := size(tb.Kind())
	if fs == 0 || ts == 0 {
		return false
	}
	if fsig == tsig {
		return fs <= ts
	}
	if !fsig && tsig {
		return fs < ts
	}
	return false
}

func (fc *FnCtx) evalBuiltin(st *State, call *ast.CallExpr, name string) []Val {
	switch name {
	case "len":
		x := fc.eval(st, call.Args[0])
		switch x.Ty.Underlying().(type) {
		case *types.Slice:
			return []Val{{"(s_len " + x.T + ")", intT}}
		case *types.Map:
			l := sel(fc.comp(st, mapLenKey, mapLenSort), x.T)
			st.assumeOnce("(>= " + l + " 0)")
			st.assumeOnce(fmt.Sprintf("(=> (= %s 0) (= %s 0))", x.T, l))
			return []Val{{l, intT}}
		case *types.Basic:
			return []Val{{"(strlen " + x.T + ")", intT}}
		case *types.Chan:
			return []Val{fc.freshVal(st, "chanlen", intT)}
		case *types.Array:
			return []Val{{fmt.Sprintf("%d", x.Ty.Underlying().(*types.Array).Len()), intT}}
		}
	case "cap":
		x := fc.eval(st, call.Args[0])
		if _, ok := x.Ty.Underlying().(*types.Slice); ok {
			return []Val{{"(s_cap " + x.T + ")", intT}}
		}
	case "make":
		t := fc.typeOf(call.Args[0])
		switch u := t.Underlying().(type) {
		case *types.Slice:
			n := fc.eval(st, call.Args[1])
			c := n
			if len(call.Args) > 2 {
				c = fc.eval(st, call.Args[2])
			}
			g := fmt.Sprintf("(and (<= 0 %s) (<= %s %s))", n.T, n.T, c.T)
			fc.assert(st, "make", exprText(call), call.Pos(), g, "make: 0 <= len <= cap (a negative size panics)")
			st.assume(g)
			// A-mem: an allocation that succeeds is at most 2^40 elements
			st.assume(fmt.Sprintf("(<= %s %s)", c.T, MaxAlloc))
			base := fc.alloc(st, "mk")
			s := Val{fmt.Sprintf("(mk_Slice %s 0 %s %s)", base, n.T, c.T), t}
			st.known["freshbase:"+s.T] = true
			// zero-initialised backing array
			k, ks := fc.elemsKey(u.Elem())
			es := fc.smt.sortOf(u.Elem())
			fc.setComp(st, k, ks, sto(fc.comp(st, k, ks), base, "((as const (Array Int "+es+")) "+fc.smt.zero(u.Elem())+")"))
			return []Val{s}
		case *types.Map:
			if len(call.Args) > 1 {
				h := fc.eval(st, call.Args[1])
				fc.assert(st, "make", exprText(call), call.Pos(), "(>= "+h.T+" 0)", "make(map, n): n >= 0")
			}
			return []Val{fc.newMap(st, t)}
		case *types.Chan:
			r := fc.alloc(st, "chan")
			fc.setComp(st, chanOpenKey, chanOpenSort, sto(fc.comp(st, chanOpenKey, chanOpenSort), r, "true"))
			return []Val{{r, t}}
		}
	case "new":
		t := fc.typeOf(call.Args[0])
		p := Val{fc.alloc(st, "new"), types.NewPointer(t)}
		fc.storeDeref(st, p, Val{fc.smt.zero(t), t})
		return []Val{p}
	case "append":
		return []Val{fc.evalAppend(st, call)}
	case "delete":
		m := fc.eval(st, call.Args[0])
		k := fc.eval(st, call.Args[1])
		fc.eng.hookDelete(fc, st, call, m, k)
		fc.mapDelete(st, m, k)
		return nil
	case "min", "max":
		a := fc.eval(st, call.Args[0])
		for _, x := range call.Args[1:] {
			b := fc.eval(st, x)
			op := "<="
			if name == "max" {
				op = ">="
			}
			a = Val{ite("("+op+" "+a.T+" "+b.T+")", a.T, b.T), a.Ty}
		}
		return []Val{a}
	case "close":
		ch := fc.eval(st, call.Args[0])
		open := sel(fc.comp(st, chanOpenKey, chanOpenSort), ch.T)
		fc.assert(st, "chan", "close-open:"+exprText(call.Args[0]), call.Pos(), open, "close of a channel that may already be closed")
		fc.setComp(st, chanOpenKey, chanOpenSort, sto(fc.comp(st, chanOpenKey, chanOpenSort), ch.T, "false"))
		return nil
	case "recover":
		return []Val{fc.freshVal(st, "recovered", fc.typeOf(call))}
	case "copy":
		dst := fc.eval(st, call.Args[0])
		src := fc.eval(st, call.Args[1])
		sl := dst.Ty.Underlying().(*types.Slice)
		n := fc.smt.fresh("copied", "Int")
		st.assume(fmt.Sprintf("(= %s (ite (<= (s_len %s) (s_len %s)) (s_len %s) (s_len %s)))", n, dst.T, src.T, dst.T, src.T))
		k, ks := fc.elemsKey(sl.Elem())
		es := fc.smt.sortOf(sl.Elem())
		old := fc.comp(st, k, ks)
		row := fc.smt.fresh("cprow", "(Array Int "+es+")")
		fc.smt.nfresh++
		q := fmt.Sprintf("j!q%d", fc.smt.nfresh)
		if _, isStr := src.Ty.Underlying().(*types.Basic); !isStr {
			st.assume(fmt.Sprintf("(forall ((%[1]s Int)) (= (select %[2]s %[1]s) (ite (and (<= 0 %[1]s) (< %[1]s %[4]s)) (select (select %[5]s (s_base %[6]s)) %[1]s) (select (select %[5]s (s_base %[3]s)) %[1]s))))",
				q, row, dst.T, n, old, src.T))
		}
		fc.setComp(st, k, ks, sto(old, "(s_base "+dst.T+")", row))
		return []Val{{n, intT}}
	case "clear":
		x := fc.eval(st, call.Args[0])
		if mt, ok := x.Ty.Underlying().(*types.Map); ok {
			dk, ds, _, _ := fc.mapKeys(mt)
			ks := fc.smt.sortOf(mt.Key())
			fc.setComp(st, dk, ds, sto(fc.comp(st, dk, ds), x.T, "((as const (Array "+ks+" Bool)) false)"))
			fc.setComp(st, mapLenKey, mapLenSort, sto(fc.comp(st, mapLenKey, mapLenSort), x.T, "0"))
			return nil
		}
	case "panic":
		fc.assert(st, "panic", "explicit", call.Pos(), "false", "explicit panic is unreachable")
		st.assume("false")
		return nil
	case "print", "println":
		return nil
	}
	fc.unsupp(call.Pos(), "builtin %s in this form", name)
	return nil
}

func (fc *FnCtx) evalAppend(st *State, call *ast.CallExpr) Val {
	s := fc.eval(st, call.Args[0])
	sl, ok := s.Ty.Underlying().(*types.Slice)
	if !ok {
		fc.unsupp(call.Pos(), "append on %s", s.Ty)
	}
	if call.Ellipsis.IsValid() {
		// append(a, b...): result has a's elements then b's; model as fresh slice with quantified contents
		b := fc.eval(st, call.Args[1])
		k, ks := fc.elemsKey(sl.Elem())
		base := fc.alloc(st, "app")
		nl := "(+ (s_len " + s.T + ") (s_len " + b.T + "))"
		nc := fc.smt.fresh("appcap", "Int")
		st.assume(fmt.Sprintf("(and (>= %s %s) (<= %s %s))", nc, nl, nc, MaxAlloc))
		r := Val{fmt.Sprintf("(mk_Slice %s 0 %s %s)", base, nl, nc), s.Ty}
		old := fc.comp(st, k, ks)
		es := fc.smt.sortOf(sl.Elem())
		row := fc.smt.fresh("approw", "(Array Int "+es+")")
		fc.smt.nfresh++
		q := fmt.Sprintf("j!q%d", fc.smt.nfresh)
		st.assume(fmt.Sprintf("(forall ((%[1]s Int)) (=> (and (<= 0 %[1]s) (< %[1]s %[2]s)) (= (select %[3]s %[1]s) (ite (< %[1]s (s_len %[4]s)) (select (select %[5]s (s_base %[4]s)) %[1]s) (select (select %[5]s (s_base %[6]s)) (- %[1]s (s_len %[4]s)))))))",
			q, nl, row, s.T, old, b.T))
		fc.setComp(st, k, ks, sto(old, base, row))
		fc.warn("append(a, b...) always modelled as reallocating (aliasing with spare capacity not modelled)")
		return r
	}
	cur := s
	for _, a := range call.Args[1:] {
		v := fc.evalElt(st, a, sl.Elem())
		cur = fc.appendOne(st, cur, v, sl.Elem())
	}
	return cur
}

// appendOne: in place when capacity allows, otherwise reallocate. Modelled as ONE heap store at a base that is
// either the old backing array or a fresh one (no ite between whole heaps).
func (fc *FnCtx) appendOne(st *State, s Val, v Val, elem types.Type) Val {
	k, ks := fc.elemsKey(elem)
	es := fc.smt.sortOf(elem)
	old := fc.comp(st, k, ks)
	fresh := fc.alloc(st, "grow")
	nc := fc.smt.fresh("newcap", "Int")
	st.assume(fmt.Sprintf("(and (> %s (s_len %s)) (<= %s %s))", nc, s.T, nc, MaxAlloc))
	st.assumeOnce(fmt.Sprintf("(<= (+ (s_len %s) 1) %s)", s.T, MaxAlloc))
	// copy of the old contents (reallocation case)
	grow := fc.smt.fresh("growrow", "(Array Int "+es+")")
	fc.smt.nfresh++
	q := fmt.Sprintf("j!q%d", fc.smt.nfresh)
	st.assume(fmt.Sprintf("(forall ((%[1]s Int)) (! (=> (and (<= 0 %[1]s) (< %[1]s (s_len %[2]s))) (= (select %[3]s %[1]s) (select (select %[4]s (s_base %[2]s)) %[1]s))) :pattern ((select %[3]s %[1]s))))",
		q, s.T, grow, old))
	nr := fc.smt.fresh("appended", "Slice")
	if s.T == "(mk_Slice 0 0 0 0)" {
		st.assume(eq(nr, fmt.Sprintf("(mk_Slice %s 0 1 %s)", fresh, nc)))
		fc.setComp(st, k, ks, sto(old, fresh, sto(grow, "0", v.T)))
		st.known["freshbase:"+nr] = true
		st.assume("(> (s_base " + nr + ") top0)")
		return Val{nr, s.Ty}
	}
	if st.known["freshbase:"+s.T] {
		// the appended-to slice was allocated by this function: so is the result (redundant fact, helps the frame)
		st.known["freshbase:"+nr] = true
		st.assume("(> (s_base " + nr + ") top0)")
	}
	fits := "(< (s_len " + s.T + ") (s_cap " + s.T + "))"
	nb := fc.smt.fresh("appbase", "Int")
	st.assume(eq(nb, ite(fits, "(s_base "+s.T+")", fresh)))
	row := fc.smt.fresh("approw", "(Array Int "+es+")")
	st.assume(eq(row, sto(ite(fits, sel(old, "(s_base "+s.T+")"), grow), "(s_len "+s.T+")", v.T)))
	st.assume(eq(nr, fmt.Sprintf("(mk_Slice %s 0 (+ (s_len %s) 1) %s)", nb, s.T, ite(fits, "(s_cap "+s.T+")", nc))))
	fc.setComp(st, k, ks, sto(old, nb, row))
	return Val{nr, s.Ty}
}

// hit records that an emit-clause key (or a caller-scoped function-value extern) met a site in the function under
// contract; a key that meets none means the contract was written for a different body (see staleClauses).
func (fc *FnCtx) hit(key string) {
	r := fc.root()
	if r.clauseHit == nil {
		r.clauseHit = map[string]bool{}
	}
	r.clauseHit[key] = true
}

// ---------- function values ----------

// atomicCall models methods of sync/atomic boxes as reads/updates of the boxed value (sequentially consistent)
func (fc *FnCtx) atomicCall(st *State, call *ast.CallExpr, f *types.Func) ([]Val, bool) {
	sig := f.Type().(*types.Signature)
	if sig.Recv() == nil {
		return nil, false
	}
	pt, ok := sig.Recv().Type().Underlying().(*types.Pointer)
	if !ok {
		return nil, false
	}
	vt, ok := isAtomicInt(pt.Elem())
	if !ok {
		return nil, false
	}
	se := ast.Unparen(call.Fun).(*ast.SelectorExpr)
	target := se.X // addressable expression holding the box
	cur := fc.eval(st, target)
	cur.Ty = vt
	switch f.Name() {
	case "Load":
		return []Val{cur}, true
	case "Store":
		v := fc.eval(st, call.Args[0])
		fc.assign(st, target, Val{v.T, fc.typeOf(target)})
		return nil, true
	case "Add":
		d := fc.eval(st, call.Args[0])
		sum := "(+ " + cur.T + " " + d.T + ")"
		r := fc.smt.fresh("atomicadd", "Int")
		if lo, hi, ok := intRange(vt); ok {
			// two's-complement wrap-around: exact when the sum is in range
			st.assume(fmt.Sprintf("(and (<= %s %s) (<= %s %s))", lo, r, r, hi))
			st.assume(fmt.Sprintf("(=> (and (<= %s %s) (<= %s %s)) (= %s %s))", lo, sum, sum, hi, r, sum))
		} else {
			st.assume(eq(r, sum))
		}
		fc.assign(st, target, Val{r, fc.typeOf(target)})
		return []Val{{r, vt}}, true
	case "Swap":
		v := fc.eval(st, call.Args[0])
		fc.assign(st, target, Val{v.T, fc.typeOf(target)})
		return []Val{cur}, true
	case "CompareAndSwap":
		o := fc.eval(st, call.Args[0])
		n := fc.eval(st, call.Args[1])
		okc := eq(cur.T, o.T)
		fc.assign(st, target, Val{ite(okc, n.T, cur.T), fc.typeOf(target)})
		return []Val{{okc, boolT}}, true
	}
	return nil, false
}

func (fc *FnCtx) evalFuncValueCall(st *State, call *ast.CallExpr, preArgs []Val) []Val {
	fv := fc.eval(st, call.Fun)
	fc.bumpCall(st, exprText(call.Fun))
	if r := fc.root(); r == fc && r.ct != nil && len(r.ct.CallPre[exprText(call.Fun)]) > 0 {
		if sig, ok := fv.Ty.Underlying().(*types.Signature); ok {
			args := preArgs
			if args == nil {
				args = fc.evalArgs(st, call, sig)
				preArgs = args
			}
			scope := map[string]Val{"$fn": fv}
			for i := range args {
				scope[fmt.Sprintf("$%d", i)] = args[i]
			}
			fc.hit("callpre " + exprText(call.Fun))
			for i, cl := range r.ct.CallPre[exprText(call.Fun)] {
				env := &SpecEnv{fc: fc, st: st, old: r.entry, scope: scope, oldScope: fc.paramsEntry, pkg: fc.ctPkg(), useVars: true}
				v := fc.safeSpec(env, cl.E, cl.Text)
				fc.assertNamed(st, "emit", exprText(call.Fun)+"."+clauseName(cl, i), v.T, "whenever "+exprText(call.Fun)+" is called: "+cl.Text, call.Pos())
			}
		}
	}
	if cl, ok := st.closures[fv.T]; ok {
		return fc.inlineClosure(st, call, cl)
	}
	// extern contract keyed by the expression text, e.g. "handler" parameters: `extern $handler`
	key := "$" + exprText(call.Fun)
	if fc.ct != nil || fc.root().ct != nil {
		if p := fc.ctPkg(); p != nil && p.cf != nil {
			rk := fc.root().key
			_ = rk
			c, ok := p.cf.Contracts[key+"@"+strings.TrimPrefix(fc.root().key, p.Types.Name()+".")]
			if ok {
				fc.hit("extern " + key)
			}
			if !ok {
				c, ok = p.cf.Contracts[key]
			}
			if ok {
				sig, _ := fv.Ty.Underlying().(*types.Signature)
				args := preArgs
				if sig != nil && args == nil {
					args = fc.evalArgs(st, call, sig)
				}
				return fc.applyContractSig(st, call, key, sig, c, nil, args)
			}
		}
	}
	if sig, ok := fv.Ty.Underlying().(*types.Signature); ok && sig.Results().Len() > 0 && fc.pureFuncValue(call) {
		args := preArgs
		if args == nil {
			args = fc.evalArgs(st, call, sig)
		}
		var ats []string
		for _, a := range args {
			ats = append(ats, a.T)
		}
		var out []Val
		for i := 0; i < sig.Results().Len(); i++ {
			t := "(" + fc.appFn(sig, i) + " " + fv.T + " " + strings.Join(ats, " ") + ")"
			if len(ats) == 0 {
				t = "(" + fc.appFn(sig, i) + " " + fv.T + ")"
			}
			v := Val{t, sig.Results().At(i).Type()}
			fc.assumeTyped(st, v)
			out = append(out, v)
		}
		return out
	}
	fc.warn("call of function value %s: heap havocked", exprText(call.Fun))
	for _, a := range call.Args {
		fc.eval(st, a)
	}
	fc.havocAll(st)
	return fc.freshResults(st, call, "fv")
}

func (fc *FnCtx) inlineClosure(st *State, call *ast.CallExpr, cl *closure) []Val {
	owner := cl.fc
	lit := cl.lit
	sig := owner.info.TypeOf(lit).(*types.Signature)
	args := fc.evalArgs(st, call, sig)
	// bind parameters
	i := 0
	for _, fl := range lit.Type.Params.List {
		for _, n := range fl.Names {
			owner.defineVarIn(st, n, args[i])
			i++
		}
		if len(fl.Names) == 0 {
			i++
		}
	}
	saveRes, saveDef := owner.results, st.defers
	var results []*types.Var
	for j := 0; j < sig.Results().Len(); j++ {
		results = append(results, sig.Results().At(j))
	}
	owner.results = results
	if lit.Type.Results != nil {
		for _, fl := range lit.Type.Results.List {
			for _, n := range fl.Names {
				if obj := owner.info.Defs[n]; obj != nil {
					st.vars[obj] = Val{fc.smt.zero(obj.Type()), obj.Type()}
				}
			}
		}
	}
	st.defers = nil
	outs := owner.execBlock(st, lit.Body.List)
	owner.results = saveRes
	var ends []*State
	var vals [][]Val
	for _, o := range outs {
		switch o.kind {
		case oNormal, oReturn:
			for _, o2 := range owner.runDefers(o.st, 0) {
				o2.st.defers = saveDef
				ends = append(ends, o2.st)
				vals = append(vals, o.vals)
			}
		case oPanic:
			fc.unsupp(call.Pos(), "panic escaping an inlined closure")
		default:
			fc.unsupp(call.Pos(), "break/continue escaping a closure")
		}
	}
	return fc.mergeReturns(st, ends, vals, results, call)
}

func (fc *FnCtx) defineVarIn(st *State, id *ast.Ident, v Val) { fc.defineVar(st, id, v) }

// mergeReturns merges the end states of an inlined callee into st and returns the result values.
func (fc *FnCtx) mergeReturns(st *State, ends []*State, vals [][]Val, results []*types.Var, call *ast.CallExpr) []Val {
	if len(ends) == 0 {
		st.assume("false")
		var out []Val
		for _, r := range results {
			out = append(out, Val{fc.smt.zero(r.Type()), r.Type()})
		}
		return out
	}
	// carry result values through the merge as pseudo variables
	tmp := make([]*types.Var, len(results))
	for i, r := range results {
		tmp[i] = types.NewVar(token.NoPos, nil, fmt.Sprintf("$ret%d", i), r.Type())
		for j, e := range ends {
			if i < len(vals[j]) {
				e.vars[tmp[i]] = Val{vals[j][i].T, r.Type()}
			} else {
				e.vars[tmp[i]] = Val{fc.smt.zero(r.Type()), r.Type()}
			}
		}
	}
	m := fc.mergeStates(ends)
	if m == nil {
		fc.unsupp(call.Pos(), "inlined callee ends in states that cannot be merged (locks/defers differ)")
	}
	var out []Val
	for i := range results {
		out = append(out, m.vars[tmp[i]])
		delete(m.vars, tmp[i])
	}
	*st = *m
	return out
}

// inlineCall executes the body of a contract-less function of a loaded package.
func (fc *FnCtx) inlineCall(st *State, call *ast.CallExpr, f *types.Func, decl *ast.FuncDecl, recv *Val, args []Val) []Val {
	p := fc.eng.pkgs[f.Pkg().Path()]
	child := &FnCtx{eng: fc.eng, pkg: p, fn: f, decl: decl, body: decl.Body, smt: fc.smt, parent: fc, depth: fc.depth + 1,
		loopOrd: map[ast.Stmt]int{}, boxed: map[types.Object]bool{}, info: p.TypesInfo, inline: append(append([]string(nil), fc.inline...), f.Name())}
	child.prepare()
	sig := f.Type().(*types.Signature)
	saveVars := st.vars
	nv := map[types.Object]Val{}
	for k, v := range st.vars {
		nv[k] = v
	}
	st.vars = nv
	if decl.Recv != nil && len(decl.Recv.List) > 0 && len(decl.Recv.List[0].Names) > 0 && recv != nil {
		if _, isPtr := recv.Ty.Underlying().(*types.Pointer); isPtr {
			fc.nilCheck(st, *recv, call.Fun)
		}
		child.defineVar(st, decl.Recv.List[0].Names[0], *recv)
	}
	i := 0
	for _, fl := range decl.Type.Params.List {
		for _, n := range fl.Names {
			if i < len(args) {
				child.defineVar(st, n, args[i])
			}
			i++
		}
		if len(fl.Names) == 0 {
			i++
		}
	}
	for j := 0; j < sig.Results().Len(); j++ {
		child.results = append(child.results, sig.Results().At(j))
	}
	if decl.Type.Results != nil {
		for _, fl := range decl.Type.Results.List {
			for _, n := range fl.Names {
				if obj := p.TypesInfo.Defs[n]; obj != nil {
					child.defineVar(st, n, Val{fc.smt.zero(obj.Type()), obj.Type()})
				}
			}
		}
	}
	saveDef := st.defers
	st.defers = nil
	// a callee that defers a literal calling recover() is a recover scope, exactly like such a literal executed inline
	opensRecover := false
	if len(decl.Body.List) > 0 {
		if d, ok := decl.Body.List[0].(*ast.DeferStmt); ok {
			if dl, ok := ast.Unparen(d.Call.Fun).(*ast.FuncLit); ok && containsRecover(dl) {
				opensRecover = true
			}
		}
	}
	if opensRecover {
		st.recov++
	}
	outs := child.execBlock(st, decl.Body.List)
	var ends []*State
	var vals [][]Val
	for _, o := range outs {
		switch o.kind {
		case oNormal, oReturn:
			if opensRecover {
				o.st.recov--
			}
			for _, o2 := range child.runDefers(o.st, 0) {
				o2.st.defers = saveDef
				// read named results after defers when the return was bare
				vs := o.vals
				ends = append(ends, o2.st)
				vals = append(vals, vs)
			}
		case oPanic:
			if !opensRecover {
				fc.unsupp(call.Pos(), "panic escaping inlined %s", f.Name())
			}
			// the deferred recover() swallows the panic: the function returns the current values of its named results
			// (the zero value for unnamed ones)
			o.st.recov--
			for _, o2 := range child.runDefers(o.st, 0) {
				o2.st.defers = saveDef
				var vs []Val
				for _, r := range child.results {
					if v, ok := o2.st.vars[r]; ok && r.Name() != "" && r.Name() != "_" {
						if child.isBoxed(r) {
							v = child.deref(o2.st, v)
						}
						vs = append(vs, Val{v.T, r.Type()})
					} else {
						vs = append(vs, Val{fc.smt.zero(r.Type()), r.Type()})
					}
				}
				ends = append(ends, o2.st)
				vals = append(vals, vs)
			}
		}
	}
	out := fc.mergeReturns(st, ends, vals, child.results, call)
	// restore the caller's variables (callee locals disappear; caller's boxed/heap effects stay)
	st.vars = map[types.Object]Val{}
	for k := range saveVars {
		if v, ok := nv[k]; ok {
			_ = v
		}
	}
	// caller variables cannot be changed by the callee (no closures over them here), so restore them
	for k, v := range saveVars {
		st.vars[k] = v
	}
	return out
}

// ---------- contracts at call sites ----------

func (fc *FnCtx) paramNames(f *types.Func, sig *types.Signature, ct *Contract) (recvName string, names []string) {
	if len(ct.ParamNames) > 0 {
		pn := ct.ParamNames
		if sig.Recv() != nil && len(pn) == sig.Params().Len()+1 {
			return pn[0], pn[1:]
		}
		return "", pn
	}
	if sig.Recv() != nil {
		recvName = sig.Recv().Name()
	}
	for i := 0; i < sig.Params().Len(); i++ {
		names = append(names, sig.Params().At(i).Name())
	}
	return
}

func (fc *FnCtx) applyContract(st *State, call *ast.CallExpr, f *types.Func, ct *Contract, recv *Val, args []Val) []Val {
	sig := f.Type().(*types.Signature)
	return fc.applyContractSig(st, call, f.Name(), sig, ct, recv, args)
}

func (fc *FnCtx) applyContractSig(st *State, call *ast.CallExpr, fname string, sig *types.Signature, ct *Contract, recv *Val, args []Val) []Val {
	cpkg := fc.eng.pkgs[ct.Pkg]
	if cpkg == nil {
		cpkg = fc.pkg
	}
	var recvName string
	var names []string
	if sig != nil {
		recvName, names = fc.paramNames(nil, sig, ct)
	}
	scope := map[string]Val{}
	if recv != nil && recvName != "" && recvName != "_" {
		scope[recvName] = *recv
	}
	if recv != nil && sig != nil && sig.Recv() != nil {
		if _, isPtr := recv.Ty.Underlying().(*types.Pointer); isPtr && !ct.Extern {
			fc.nilCheck(st, *recv, call.Fun)
		}
	}
	for i, n := range names {
		if i < len(args) && n != "" && n != "_" {
			scope[n] = args[i]
		}
	}
	pos := call.Pos()
	occ := fc.anchor("call", fname, pos) // reserve an ordinal for this call site
	_ = occ
	siteOrd := fc.root().occ["call:"+strings.Join(append(append([]string(nil), fc.inline...), fname), ">")][pos]
	site := fname
	if siteOrd > 1 {
		site = fmt.Sprintf("%s.%d", fname, siteOrd)
	}
	if ct.Pure {
		// uninterpreted function of the arguments
		var rts []types.Type
		if sig != nil {
			for i := 0; i < sig.Results().Len(); i++ {
				rts = append(rts, sig.Results().At(i).Type())
			}
		}
		if tr := fc.resultTypes(call); len(tr) == len(rts) {
			rts = tr
		}
		var out []Val
		for i, rt := range rts {
			v := fc.pureApp(ct, recv, args, rt, i)
			fc.assumeTyped(st, v)
			out = append(out, v)
		}
		// pure contracts may still carry requires/ensures
		env := &SpecEnv{fc: fc, st: st, old: st, scope: scope, oldScope: scope, pkg: cpkg}
		for i, rq := range ct.Requires {
			v := fc.safeSpec(env, rq.E, rq.Text)
			fc.assertNamed(st, "pre", site+"."+clauseName(rq, i), v.T, "precondition of "+ct.Key+": "+rq.Text, pos)
			st.assume(v.T)
		}
		fc.bindResults(scope, sig, out)
		for _, en := range ct.Ensures {
			st.assume(fc.safeSpec(env, en.E, en.Text).T)
		}
		return out
	}
	pre := st.clone()
	fv := strings.HasPrefix(ct.Key, "$") || strings.Contains(ct.Key, "@") // function-value and caller-scoped contracts may mention the caller's variables
	env := &SpecEnv{fc: fc, st: st, old: pre, scope: scope, oldScope: scope, pkg: cpkg, useVars: fv}
	for i, rq := range ct.Requires {
		v := fc.safeSpec(env, rq.E, rq.Text)
		fc.assertNamed(st, "pre", site+"."+clauseName(rq, i), v.T, "precondition of "+ct.Key+": "+rq.Text, pos)
		st.assume(v.T)
	}
	// havoc what the callee may assign
	if ct.Quiet {
		// nothing
	} else if !ct.HasAssigns {
		if !ct.Extern {
			fc.warn("contract %s has no assigns clause: heap havocked at call sites", ct.Key)
		}
		fc.havocAll(st)
		// without a frame the callee may also have changed ghost state: forget every ghost component (otherwise an
		// ensures clause about a ghost would contradict the unchanged value and make the rest of the path vacuous)
		for k, srt := range fc.smt.heapSort {
			if strings.Contains(k, ".ghost_") {
				st.heap[k] = fc.smt.fresh("Hg_"+k, srt)
			}
		}
	} else {
		fc.havocAssigns(st, pre, ct, env)
	}
	var out []Val
	if sig != nil {
		for i := 0; i < sig.Results().Len(); i++ {
			rt := sig.Results().At(i).Type()
			if tr := fc.resultTypes(call); i < len(tr) {
				rt = tr[i]
			}
			out = append(out, fc.freshVal(st, "r_"+fname, rt))
		}
	}
	fc.bindResults(scope, sig, out)
	env2 := &SpecEnv{fc: fc, st: st, old: pre, scope: scope, oldScope: scope, pkg: cpkg, useVars: fv}
	for _, en := range ct.Ensures {
		if v, ok := fc.specForCaller(env2, en, ct); ok {
			st.assume(v.T)
		}
	}
	return out
}

// specForCaller evaluates a postcondition of a callee at a call site. A postcondition of a function under contract
// (not an extern) that names a local of the callee's body says something the caller cannot see: it is proved on the
// callee and simply not handed to the caller (assuming less is sound). The callee's own verification still reports a
// name that resolves nowhere.
func (fc *FnCtx) specForCaller(env *SpecEnv, en Clause, ct *Contract) (v Val, ok bool) {
	defer func() {
		if r := recover(); r != nil {
			// (a missing resultN means the callee's signature changed under a stale contract: that must still degrade the caller)
			if ue, isU := r.(unsupportedErr); isU && !ct.Extern && strings.Contains(ue.msg, "unknown name") && !strings.Contains(ue.msg, "unknown name \"result") {
				ok = false
				return
			}
			panic(r)
		}
	}()
	return fc.safeSpec(env, en.E, en.Text), true
}

func clauseName(c Clause, i int) string {
	if c.Label != "" {
		return c.Label
	}
	return fmt.Sprintf("%d", i+1)
}

func (fc *FnCtx) bindResults(scope map[string]Val, sig *types.Signature, out []Val) {
	if sig == nil {
		return
	}
	for i := 0; i < sig.Results().Len() && i < len(out); i++ {
		if n := sig.Results().At(i).Name(); n != "" && n != "_" {
			if _, clash := scope[n]; !clash {
				scope[n] = out[i]
			}
		}
		scope[fmt.Sprintf("result%d", i)] = out[i]
	}
	if len(out) >= 1 {
		scope["result"] = out[0]
	}
}

// havocAssigns applies the frame of a callee contract to st
func (fc *FnCtx) havocAssigns(st *State, pre *State, ct *Contract, env *SpecEnv) {
	for _, item := range ct.Assigns {
		fc.havocItem(st, pre, item, env)
	}
	nt := fc.smt.fresh("top", "Int")
	st.assume("(>= " + nt + " " + st.top + ")")
	st.top = nt
}

func (fc *FnCtx) havocItem(st *State, pre *State, item string, env *SpecEnv) {
	item = strings.TrimSpace(item)
	if item == "*" {
		fc.havocAll(st)
		return
	}
	e, err := parseSpecExpr(item)
	if err != nil {
		panic(unsupportedErr{"bad assigns item " + item + ": " + err.Error()})
	}
	penv := *env
	penv.st = pre
	penv.inOld = false
	switch x := e.(type) {
	case *SCall:
		id, _ := x.Fun.(*SIdent)
		if id != nil && id.Name == "elems" {
			s := fc.safeSpec(&penv, x.Args[0], item)
			sl, ok := s.Ty.Underlying().(*types.Slice)
			if !ok {
				panic(unsupportedErr{"elems() of non-slice in assigns: " + item})
			}
			k, ks := fc.elemsKey(sl.Elem())
			es := fc.smt.sortOf(sl.Elem())
			fc.setComp(st, k, ks, sto(fc.comp(st, k, ks), "(s_base "+s.T+")", fc.smt.fresh("arow", "(Array Int "+es+")")))
			return
		}
		if id != nil && id.Name == "contents" {
			m := fc.safeSpec(&penv, x.Args[0], item)
			fc.havocReachable(st, m)
			return
		}
		if id != nil && id.Name == "all" {
			// all(Type.field): the whole component
			tn := specTypeText(x.Args[0])
			di := strings.LastIndex(tn, ".")
			t := fc.eng.resolveType(env.pkg, tn[:di])
			if t == nil {
				panic(unsupportedErr{"unknown type in assigns: " + item})
			}
			if g := fc.eng.ghostField(t, tn[di+1:]); g != nil {
				gt := fc.eng.resolveGhostType(g)
				k := "F$" + structKeyName(t) + ".ghost_" + g.Name
				fc.comp(st, k, "(Array Int "+fc.smt.sortOf(gt)+")")
				fc.havocComp(st, k)
				return
			}
			_, su, _ := derefStruct(t)
			for i := 0; su != nil && i < su.NumFields(); i++ {
				if su.Field(i).Name() == tn[di+1:] {
					k, ks := fc.fieldKey(t, su.Field(i))
					fc.comp(st, k, ks)
					fc.havocComp(st, k)
				}
			}
			return
		}
		if id != nil && id.Name == "open" {
			ch := fc.safeSpec(&penv, x.Args[0], item)
			fc.setComp(st, chanOpenKey, chanOpenSort, sto(fc.comp(st, chanOpenKey, chanOpenSort), ch.T, fc.smt.fresh("aopen", "Bool")))
			return
		}
	case *SSel:
		base := fc.safeSpec(&penv, x.X, item)
		if g := fc.eng.ghostField(base.Ty, x.Name); g != nil {
			gt := fc.eng.resolveGhostType(g)
			key := "F$" + structKeyName(base.Ty) + ".ghost_" + g.Name
			srt := "(Array Int " + fc.smt.sortOf(gt) + ")"
			fc.setComp(st, key, srt, sto(fc.comp(st, key, srt), base.T, fc.smt.fresh("ag_"+g.Name, fc.smt.sortOf(gt))))
			return
		}
		sT, su, isPtr := derefStruct(base.Ty)
		if su == nil || !isPtr {
			panic(unsupportedErr{"assigns item must be ptr.field: " + item})
		}
		for i := 0; i < su.NumFields(); i++ {
			f := su.Field(i)
			if f.Name() == x.Name {
				k, ks := fc.fieldKey(sT, f)
				nv := fc.freshVal(st, "a_"+f.Name(), f.Type())
				fc.setComp(st, k, ks, sto(fc.comp(st, k, ks), base.T, nv.T))
				return
			}
		}
	case *SUn:
		if x.Op == "*" {
			// not produced by the parser; kept for completeness
		}
	case *SIdent:
		// a local variable of the calling function (caller-scoped extern whose callee runs the caller's literals)
		{
			var best types.Object
			for o := range st.vars {
				if o.Name() == x.Name && (best == nil || o.Pos() > best.Pos()) {
					best = o
				}
			}
			if best != nil {
				nv := fc.freshVal(st, "al_"+best.Name(), best.Type())
				if fc.isBoxed(best) {
					fc.storeDeref(st, st.vars[best], nv)
				} else {
					st.vars[best] = nv
				}
				return
			}
		}
		// a global variable
		if env.pkg != nil {
			if o, ok := env.pkg.Types.Scope().Lookup(x.Name).(*types.Var); ok {
				key := "G$" + o.Pkg().Name() + "." + o.Name()
				fc.comp(st, key, fc.smt.sortOf(o.Type()))
				st.heap[key] = fc.freshVal(st, "ag_"+o.Name(), o.Type()).T
				return
			}
		}
	}
	panic(unsupportedErr{"unsupported assigns item: " + item})
}

// ---------- protobuf getters ----------

type protoGetterInfo struct {
	field string
	oneof string // for oneof member getters: wrapper type name
	inner string // field inside the wrapper
}

var getterCache = map[*types.Func]*protoGetterInfo{}
var getterFiles = map[string]*ast.File{}

// protoGetter recognises generated nil-safe getters by matching their body in the source file.
func (fc *FnCtx) protoGetter(f *types.Func) (*protoGetterInfo, bool) {
	f = f.Origin()
	if pg, ok := getterCache[f]; ok {
		return pg, pg != nil
	}
	getterCache[f] = nil
	if !strings.HasPrefix(f.Name(), "Get") || f.Pkg() == nil {
		return nil, false
	}
	pos := fc.eng.fset.Position(f.Pos())
	if !strings.HasSuffix(pos.Filename, ".pb.go") {
		return nil, false
	}
	file, ok := getterFiles[pos.Filename]
	if !ok {
		var err error
		file, err = parser.ParseFile(token.NewFileSet(), pos.Filename, nil, parser.SkipObjectResolution)
		if err != nil {
			getterFiles[pos.Filename] = nil
			return nil, false
		}
		getterFiles[pos.Filename] = file
	}
	if file == nil {
		return nil, false
	}
	recvName := ""
	if n := namedOf(f.Type().(*types.Signature).Recv().Type()); n != nil {
		recvName = n.Obj().Name()
	}
	for _, d := range file.Decls {
		fd, ok := d.(*ast.FuncDecl)
		if !ok || fd.Name.Name != f.Name() || fd.Recv == nil || fd.Body == nil {
			continue
		}
		if star, ok := fd.Recv.List[0].Type.(*ast.StarExpr); !ok || types.ExprString(star.X) != recvName {
			continue
		}
		if len(fd.Body.List) != 2 {
			return nil, false
		}
		ifs, ok := fd.Body.List[0].(*ast.IfStmt)
		if !ok || len(ifs.Body.List) != 1 {
			return nil, false
		}
		ret, ok := ifs.Body.List[0].(*ast.ReturnStmt)
		if !ok || len(ret.Results) != 1 {
			return nil, false
		}
		se, ok := ret.Results[0].(*ast.SelectorExpr)
		if !ok {
			return nil, false
		}
		x := fd.Recv.List[0].Names[0].Name
		// pattern 1: if x != nil { return x.F }; return zero
		if be, ok := ifs.Cond.(*ast.BinaryExpr); ok && ifs.Init == nil && be.Op == token.NEQ && types.ExprString(be.X) == x && types.ExprString(be.Y) == "nil" {
			if types.ExprString(se.X) == x {
				pg := &protoGetterInfo{field: se.Sel.Name}
				getterCache[f] = pg
				return pg, true
			}
			// pattern 1b: if x != nil { return x.xxx_hidden_F } (opaque API) not supported
			return nil, false
		}
		// pattern 2: if x, ok := x.GetOneof().(*Wrapper); ok { return x.F }; return zero
		//        or: if x, ok := x.Oneof.(*Wrapper); ok { ... }   (newer protoc-gen-go: `if x != nil { if x, ok := x.F.(*W); ok {return x.G} }`)
		if as, ok := ifs.Init.(*ast.AssignStmt); ok && len(as.Rhs) == 1 {
			if ta, ok := as.Rhs[0].(*ast.TypeAssertExpr); ok {
				wrapper := strings.TrimPrefix(types.ExprString(ta.Type), "*")
				src := ta.X
				of := ""
				if c, ok := src.(*ast.CallExpr); ok {
					if s2, ok := c.Fun.(*ast.SelectorExpr); ok {
						of = strings.TrimPrefix(s2.Sel.Name, "Get")
					}
				} else if s2, ok := src.(*ast.SelectorExpr); ok {
					of = s2.Sel.Name
				}
				if of != "" {
					pg := &protoGetterInfo{field: of, oneof: wrapper, inner: se.Sel.Name}
					getterCache[f] = pg
					return pg, true
				}
			}
		}
		return nil, false
	}
	return nil, false
}

func fieldIndex(su *types.Struct, name string) int {
	for i := 0; i < su.NumFields(); i++ {
		if su.Field(i).Name() == name {
			return i
		}
	}
	return -1
}

func (fc *FnCtx) evalProtoGetter(st *State, recv Val, pg *protoGetterInfo, rt types.Type) Val {
	_, su, _ := derefStruct(recv.Ty)
	if su == nil {
		panic(unsupportedErr{"proto getter on non-struct"})
	}
	i := fieldIndex(su, pg.field)
	if i < 0 {
		panic(unsupportedErr{"proto getter: no field " + pg.field})
	}
	nonnil := not(eq(recv.T, "0"))
	fv := fc.readField(st, recv, i)
	zero := fc.smt.zero(rt)
	if pg.oneof == "" {
		return Val{ite(nonnil, fv.T, zero), rt}
	}
	// oneof member
	n := namedOf(recv.Ty)
	wobj := n.Obj().Pkg().Scope().Lookup(pg.oneof)
	if wobj == nil {
		panic(unsupportedErr{"proto getter: no wrapper " + pg.oneof})
	}
	wt := types.NewPointer(wobj.Type())
	_, wsu, _ := derefStruct(wt)
	j := fieldIndex(wsu, pg.inner)
	ok := and(nonnil, fc.typeTest(st, fv, wt))
	inner := fc.readField(st, Val{fv.T, wt}, j)
	return Val{ite(ok, inner.T, zero), rt}
}

// ---------- known library calls ----------

func (fc *FnCtx) knownLibCall(st *State, call *ast.CallExpr, f *types.Func, recv *Val, args []Val) ([]Val, bool) {
	if f.Pkg() == nil {
		// error.Error() etc.
		if f.Name() == "Error" && recv != nil {
			fc.smt.declare("err_msg", "(declare-fun err_msg (Int) Str)")
			return []Val{{"(err_msg " + recv.T + ")", types.Typ[types.String]}}, true
		}
		return nil, false
	}
	path := f.Pkg().Path()
	switch path {
	case "time":
		if recv != nil && isTimeType(recv.Ty) {
			switch f.Name() {
			case "Before":
				return []Val{{"(< " + recv.T + " " + args[0].T + ")", boolT}}, true
			case "After":
				return []Val{{"(> " + recv.T + " " + args[0].T + ")", boolT}}, true
			case "Equal":
				return []Val{{eq(recv.T, args[0].T), boolT}}, true
			case "IsZero":
				return []Val{{eq(recv.T, "0"), boolT}}, true
			case "Compare":
				return []Val{{ite("(< "+recv.T+" "+args[0].T+")", "(- 1)", ite("(> "+recv.T+" "+args[0].T+")", "1", "0")), intT}}, true
			}
		}
	case "encoding/json":
		if f.Name() == "Unmarshal" && len(call.Args) == 2 {
			// decodes into the object the second argument points to: its fields become arbitrary
			if ue, ok := ast.Unparen(call.Args[1]).(*ast.UnaryExpr); ok && ue.Op == token.AND {
				p := fc.addrOf(st, ue.X)
				fc.havocReachable(st, p)
				return []Val{fc.freshVal(st, "jsonerr", fc.resultTypes(call)[0])}, true
			}
		}
	case "errors":
		switch f.Name() {
		case "New":
			r := fc.alloc(st, "err")
			return []Val{{r, fc.resultTypes(call)[0]}}, true
		case "Is":
			fc.smt.declare("err_is", "(declare-fun err_is (Int Int) Bool)")
			st.assumeOnce(fmt.Sprintf("(=> (= %s %s) (err_is %s %s))", args[0].T, args[1].T, args[0].T, args[1].T))
			st.assumeOnce(fmt.Sprintf("(=> (= %s 0) (not (err_is %s %s)))", args[0].T, args[0].T, args[1].T))
			return []Val{{"(err_is " + args[0].T + " " + args[1].T + ")", boolT}}, true
		}
	case "strings":
		switch f.Name() {
		case "HasPrefix", "HasSuffix", "Contains", "EqualFold":
			n := "str_" + strings.ToLower(f.Name())
			fc.smt.declare(n, fmt.Sprintf("(declare-fun %s (Str Str) Bool)", n))
			return []Val{{"(" + n + " " + args[0].T + " " + args[1].T + ")", boolT}}, true
		}
	}
	return nil, false
}

// ---------- syntactic modification sets (for loops) ----------

func (fc *FnCtx) modSetOf(n ast.Node) *modSet {
	ms := &modSet{vars: map[types.Object]bool{}, comps: map[string][]ast.Expr{}, fresh: map[string]bool{}}
	fc.collectMods(n, ms, 0)
	return ms
}

func (fc *FnCtx) addComp(ms *modSet, key string, base ast.Expr) {
	ms.comps[key] = append(ms.comps[key], base)
}

func (fc *FnCtx) modLHS(l ast.Expr, ms *modSet) {
	switch l := ast.Unparen(l).(type) {
	case *ast.Ident:
		if obj := fc.info.Uses[l]; obj != nil {
			ms.vars[obj] = true
			if fc.isBoxed(obj) {
				if v, ok := obj.(*types.Var); ok {
					fc.modPointee(v.Type(), nil, ms)
				}
			}
			if v, ok := obj.(*types.Var); ok && v.Pkg() != nil && v.Parent() == v.Pkg().Scope() {
				ms.comps["G$"+v.Pkg().Name()+"."+v.Name()] = append(ms.comps["G$"+v.Pkg().Name()+"."+v.Name()], nil)
			}
		} else if obj := fc.info.Defs[l]; obj != nil {
			ms.vars[obj] = true
		}
	case *ast.SelectorExpr:
		if sel, ok := fc.info.Selections[l]; ok && sel.Kind() == types.FieldVal {
			bt := fc.typeOf(l.X)
			idx := sel.Index()
			// find the innermost pointer base along the path
			cur := bt
			for n, i := range idx {
				sT, su, isPtr := derefStruct(cur)
				if su == nil {
					ms.all = true
					return
				}
				f := su.Field(i)
				if isPtr {
					k, _ := fc.fieldKey(sT, f)
					var base ast.Expr
					if n == 0 {
						base = l.X
					}
					if n == len(idx)-1 {
						fc.addComp(ms, k, base)
						return
					}
					// value-typed remainder: the whole field k is rewritten
					if _, p2 := f.Type().Underlying().(*types.Pointer); !p2 {
						fc.addComp(ms, k, base)
						return
					}
				} else if n == 0 {
					// value path rooted at an lvalue
					fc.modLHS(l.X, ms)
					return
				}
				cur = f.Type()
			}
		}
	case *ast.IndexExpr:
		xt := fc.typeOf(l.X)
		switch u := xt.Underlying().(type) {
		case *types.Slice:
			k, _ := fc.elemsKey(u.Elem())
			fc.addComp(ms, k, l.X)
		case *types.Map:
			dk, _, vk, _ := fc.mapKeys(u)
			fc.addComp(ms, dk, l.X)
			fc.addComp(ms, vk, l.X)
			fc.addComp(ms, mapLenKey, l.X)
		case *types.Array:
			fc.modLHS(l.X, ms)
		}
	case *ast.StarExpr:
		pt := fc.typeOf(l.X)
		fc.modPointee(pt.Underlying().(*types.Pointer).Elem(), l.X, ms)
	}
}

func (fc *FnCtx) modPointee(elem types.Type, base ast.Expr, ms *modSet) {
	if su, ok := elem.Underlying().(*types.Struct); ok && !isTimeType(elem) {
		for i := 0; i < su.NumFields(); i++ {
			k, _ := fc.fieldKey(elem, su.Field(i))
			fc.addComp(ms, k, base)
		}
		return
	}
	k, _ := fc.ptrKey(elem)
	fc.addComp(ms, k, base)
}

func (fc *FnCtx) collectMods(n ast.Node, ms *modSet, depth int) {
	ast.Inspect(n, func(x ast.Node) bool {
		switch s := x.(type) {
		case *ast.AssignStmt:
			for _, l := range s.Lhs {
				fc.modLHS(l, ms)
			}
		case *ast.IncDecStmt:
			fc.modLHS(s.X, ms)
		case *ast.RangeStmt:
			if s.Key != nil {
				fc.modLHS(s.Key, ms)
			}
			if s.Value != nil {
				fc.modLHS(s.Value, ms)
			}
		case *ast.CompositeLit, *ast.UnaryExpr:
			// allocation only
		case *ast.CallExpr:
			fc.callMods(s, ms, depth)
		case *ast.SendStmt:
		}
		return true
	})
}

func (fc *FnCtx) callMods(call *ast.CallExpr, ms *modSet, depth int) {
	fun := ast.Unparen(call.Fun)
	if tv, ok := fc.info.Types[fun]; ok && tv.IsType() {
		return
	}
	obj := fc.calleeOf(call)
	if b, ok := obj.(*types.Builtin); ok {
		switch b.Name() {
		case "delete", "clear":
			if mt, ok := fc.typeOf(call.Args[0]).Underlying().(*types.Map); ok {
				dk, _, vk, _ := fc.mapKeys(mt)
				fc.addComp(ms, dk, call.Args[0])
				fc.addComp(ms, vk, call.Args[0])
				fc.addComp(ms, mapLenKey, call.Args[0])
			}
		case "append":
			if sl, ok := fc.typeOf(call.Args[0]).Underlying().(*types.Slice); ok {
				k, _ := fc.elemsKey(sl.Elem())
				// in place at the base of the appended-to slice, or at a fresh backing array
				fc.addComp(ms, k, call.Args[0])
				ms.fresh[k] = true
			}
		case "copy":
			if sl, ok := fc.typeOf(call.Args[0]).Underlying().(*types.Slice); ok {
				k, _ := fc.elemsKey(sl.Elem())
				fc.addComp(ms, k, call.Args[0])
			}
		case "close":
			fc.addComp(ms, chanOpenKey, nil)
		case "make", "new":
			// fresh objects only; but initialisation writes components for the new reference: harmless
			if t := fc.typeOf(call.Args[0]); t != nil {
				switch u := t.Underlying().(type) {
				case *types.Map:
					dk, _, _, _ := fc.mapKeys(u)
					_ = dk
				}
			}
		}
		return
	}
	if fc.isLockCall(call) {
		se := fun.(*ast.SelectorExpr)
		if mx, ok := ast.Unparen(se.X).(*ast.SelectorExpr); ok {
			bt := fc.typeOf(mx.X)
			if g := fc.eng.guardFor(bt, mx.Sel.Name); g != nil {
				sT, su, _ := derefStruct(bt)
				for _, fn := range g.Fields {
					deep := strings.HasPrefix(fn, "*")
					fn = strings.TrimPrefix(fn, "*")
					if i := fieldIndex(su, fn); i >= 0 {
						k, _ := fc.fieldKey(sT, su.Field(i))
						if deep {
							fc.modReachableType(su.Field(i).Type(), ms)
						} else {
							fc.addComp(ms, k, mx.X)
						}
					}
				}
			}
		}
		return
	}
	f, _ := obj.(*types.Func)
	if f == nil {
		if lit, ok := fun.(*ast.FuncLit); ok {
			_ = lit // body is visited by ast.Inspect
			return
		}
		if fc.pureFuncValue(call) {
			return
		}
		// closure variable: its body is visited where it is defined if within n; otherwise unknown
		if id, ok := fun.(*ast.Ident); ok {
			if v, isVar := fc.info.Uses[id].(*types.Var); isVar {
				// a local bound exactly once to a function literal (`check := func(...) {...}`): the literal's body
				if lit := fc.soleLiteralOf(v); lit != nil && depth < 3 {
					fc.collectMods(lit.Body, ms, depth+1)
					return
				}
				if p := fc.ctPkg(); p != nil && p.cf != nil {
					if c, ok := p.cf.Contracts["$"+id.Name]; ok && c.HasAssigns && len(c.Assigns) == 0 {
						return
					}
				}
			}
		}
		ms.all = true
		return
	}
	if fc.isQuiet(f) {
		return
	}
	if _, ok := fc.protoGetter(f); ok {
		return
	}
	if f.Pkg() != nil {
		switch f.Pkg().Path() {
		case "time", "errors", "strings", "strconv":
			return
		}
	} else {
		return
	}
	if ct := fc.lookupContract(f); ct != nil {
		if ct.Pure || ct.Quiet {
			return
		}
		if !ct.HasAssigns {
			ms.all = true
			return
		}
		fc.contractMods(call, f, ct, ms)
		return
	}
	if decl := fc.eng.declOf(f); decl != nil && decl.Body != nil && depth < 3 {
		p := fc.eng.pkgs[f.Pkg().Path()]
		child := &FnCtx{eng: fc.eng, pkg: p, fn: f, decl: decl, smt: fc.smt, parent: fc, info: p.TypesInfo, boxed: map[types.Object]bool{}}
		sub := &modSet{vars: map[types.Object]bool{}, comps: map[string][]ast.Expr{}, fresh: map[string]bool{}}
		child.collectMods(decl.Body, sub, depth+1)
		if sub.all {
			ms.all = true
		}
		for k := range sub.comps {
			fc.addComp(ms, k, nil) // bases are callee expressions: treat as unknown
		}
		return
	}
	ms.all = true
}

func (fc *FnCtx) modReachableType(t types.Type, ms *modSet) {
	switch u := t.Underlying().(type) {
	case *types.Map:
		dk, _, vk, _ := fc.mapKeys(u)
		fc.addComp(ms, dk, nil)
		fc.addComp(ms, vk, nil)
		fc.addComp(ms, mapLenKey, nil)
	case *types.Slice:
		k, _ := fc.elemsKey(u.Elem())
		fc.addComp(ms, k, nil)
	case *types.Pointer:
		if su, ok := u.Elem().Underlying().(*types.Struct); ok {
			for i := 0; i < su.NumFields(); i++ {
				k, _ := fc.fieldKey(u.Elem(), su.Field(i))
				fc.addComp(ms, k, nil)
				if sl, ok := su.Field(i).Type().Underlying().(*types.Slice); ok {
					ek, _ := fc.elemsKey(sl.Elem())
					fc.addComp(ms, ek, nil)
				}
			}
		}
	}
}

// contractMods maps the assigns items of a callee contract onto the caller's expressions
func (fc *FnCtx) contractMods(call *ast.CallExpr, f *types.Func, ct *Contract, ms *modSet) {
	sig := f.Type().(*types.Signature)
	recvName, names := fc.paramNames(f, sig, ct)
	argOf := func(name string) (ast.Expr, types.Type) {
		if name == recvName && recvName != "" {
			if se, ok := ast.Unparen(call.Fun).(*ast.SelectorExpr); ok {
				return se.X, sig.Recv().Type()
			}
		}
		for i, n := range names {
			if n == name && i < len(call.Args) {
				return call.Args[i], sig.Params().At(i).Type()
			}
		}
		return nil, nil
	}
	for _, item := range ct.Assigns {
		e, err := parseSpecExpr(item)
		if err != nil || item == "*" {
			ms.all = true
			return
		}
		var rootName string
		var fieldPath []string
		kind := "field"
		var walk func(x SExpr) bool
		walk = func(x SExpr) bool {
			switch x := x.(type) {
			case *SIdent:
				rootName = x.Name
				return true
			case *SSel:
				if !walk(x.X) {
					return false
				}
				fieldPath = append(fieldPath, x.Name)
				return true
			}
			return false
		}
		target := e
		if c, ok := e.(*SCall); ok {
			if id, ok := c.Fun.(*SIdent); ok && (id.Name == "elems" || id.Name == "contents" || id.Name == "open" || id.Name == "all") {
				kind = id.Name
				target = c.Args[0]
			}
		}
		if kind == "all" {
			tn := specTypeText(target)
			di := strings.LastIndex(tn, ".")
			if t := fc.eng.resolveType(fc.eng.pkgs[ct.Pkg], tn[:di]); t != nil {
				if g := fc.eng.ghostField(t, tn[di+1:]); g != nil {
					fc.addComp(ms, "F$"+structKeyName(t)+".ghost_"+g.Name, nil)
					continue
				}
				if _, su, _ := derefStruct(t); su != nil {
					if i := fieldIndex(su, tn[di+1:]); i >= 0 {
						k, _ := fc.fieldKey(t, su.Field(i))
						fc.addComp(ms, k, nil)
						continue
					}
				}
			}
			ms.all = true
			return
		}
		if kind == "open" {
			fc.addComp(ms, chanOpenKey, nil)
			continue
		}
		if !walk(target) {
			ms.all = true
			return
		}
		argExpr, argT := argOf(rootName)
		if argT == nil {
			// a caller-scoped extern may name a parameter / the receiver of the function under verification
			var rsig *types.Signature
			if rf := fc.root().fn; rf != nil {
				rsig, _ = rf.Type().(*types.Signature)
			}
			if rsig != nil {
				var cands []*types.Var
				if rsig.Recv() != nil {
					cands = append(cands, rsig.Recv())
				}
				for i := 0; i < rsig.Params().Len(); i++ {
					cands = append(cands, rsig.Params().At(i))
				}
				for _, v := range cands {
					if v.Name() == rootName {
						argT = v.Type()
					}
				}
			}
		}
		if argT == nil {
			// global or unknown root
			if len(fieldPath) == 0 {
				if p := fc.eng.pkgs[ct.Pkg]; p != nil {
					if o, ok := p.Types.Scope().Lookup(rootName).(*types.Var); ok {
						fc.addComp(ms, "G$"+o.Pkg().Name()+"."+o.Name(), nil)
						continue
					}
				}
			}
			ms.all = true
			return
		}
		// resolve the type along the path; the component written is the last field
		cur := argT
		var lastKey string
		var lastT types.Type
		ok := true
		for n, fn := range fieldPath {
			if g := fc.eng.ghostField(cur, fn); g != nil {
				lastKey = "F$" + structKeyName(cur) + ".ghost_" + g.Name
				lastT = fc.eng.resolveGhostType(g)
				cur = lastT
				continue
			}
			sT, su, _ := derefStruct(cur)
			if su == nil {
				ok = false
				break
			}
			i := fieldIndex(su, fn)
			if i < 0 {
				ok = false
				break
			}
			lastKey, _ = fc.fieldKey(sT, su.Field(i))
			lastT = su.Field(i).Type()
			cur = lastT
			_ = n
		}
		if !ok {
			ms.all = true
			return
		}
		base := argExpr
		if len(fieldPath) > 1 {
			base = nil
		}
		switch kind {
		case "field":
			if lastKey == "" {
				ms.all = true
				return
			}
			fc.addComp(ms, lastKey, base)
		case "elems":
			if sl, ok := cur.Underlying().(*types.Slice); ok {
				k, _ := fc.elemsKey(sl.Elem())
				var b ast.Expr
				if len(fieldPath) == 0 {
					b = argExpr
				}
				fc.addComp(ms, k, b)
			} else {
				ms.all = true
			}
		case "contents":
			fc.modReachableType(cur, ms)
		}
	}
}

// checkCallPre asserts the emit-preconditions the function under verification declares for a callee
// (`callpre callee[.n]: expr`): the property clause "whenever X is called, P holds", stated over the
// caller's variables and the callee's parameter names.
func (fc *FnCtx) checkCallPre(st *State, call *ast.CallExpr, f *types.Func, recv *Val, args []Val) {
	r := fc.root()
	if r.ct == nil || len(r.ct.CallPre) == 0 {
		return
	}
	// calls made by contract-less callees that are executed inline count as calls of the function under contract: the
	// clause is evaluated over the root's variables (only the arguments come from the call site)
	inlined := fc != r
	name := f.Name()
	hasAny := false
	for k := range r.ct.CallPre {
		if k == name || strings.HasPrefix(k, name+".") {
			hasAny = true
		}
	}
	if qk := funcKey(f.Origin(), nil); len(r.ct.CallPre[qk]) > 0 {
		// receiver-qualified key, e.g. `callpre (common.Marshaler).Unmarshal: ...`
		hasAny = true
	}
	if !hasAny {
		return
	}
	// syntactic ordinal of this call site among calls of the same callee in the function body
	ord := 0
	n := 0
	ast.Inspect(r.decl.Body, func(x ast.Node) bool {
		if c, ok := x.(*ast.CallExpr); ok {
			if g, ok := r.calleeOf(c).(*types.Func); ok && g.Origin() == f.Origin() {
				n++
				if c == call {
					ord = n
				}
			}
		}
		return true
	})
	sig := f.Type().(*types.Signature)
	if args == nil && len(call.Args) > 0 {
		args = fc.evalArgs(st, call, sig)
	}
	scope := map[string]Val{}
	if recv != nil {
		scope["$recv"] = *recv
	}
	for i := 0; i < sig.Params().Len() && i < len(args); i++ {
		if pn := sig.Params().At(i).Name(); pn != "" && pn != "_" {
			scope["$"+pn] = args[i]
		}
		scope[fmt.Sprintf("$%d", i)] = args[i]
	}
	for k, v := range fc.paramsEntry {
		if _, clash := scope[k]; !clash {
			_ = v
		}
	}
	for _, key := range []string{name, fmt.Sprintf("%s.%d", name, ord), funcKey(f.Origin(), nil)} {
		if inlined && key == fmt.Sprintf("%s.%d", name, ord) {
			continue
		}
		if len(r.ct.CallPre[key]) > 0 {
			fc.hit("callpre " + key)
		}
		for i, cl := range r.ct.CallPre[key] {
			env := &SpecEnv{fc: fc, st: st, old: r.entry, scope: scope, oldScope: fc.paramsEntry, pkg: fc.ctPkg(), useVars: true}
			if inlined {
				env = &SpecEnv{fc: r, st: st, old: r.entry, scope: scope, oldScope: r.paramsEntry, pkg: r.ctPkg(), useVars: true}
			}
			v := fc.safeSpec(env, cl.E, cl.Text)
			fc.assertNamed(st, "emit", key+"."+clauseName(cl, i), v.T, "whenever "+key+" is called: "+cl.Text, call.Pos())
		}
	}
}

// appFn names the uninterpreted function "i-th result of applying function value f to args" for a signature.
func (fc *FnCtx) appFn(sig *types.Signature, i int) string {
	var sorts []string
	sorts = append(sorts, "Int")
	for j := 0; j < sig.Params().Len(); j++ {
		sorts = append(sorts, fc.smt.sortOf(sig.Params().At(j).Type()))
	}
	rs := fc.smt.sortOf(sig.Results().At(i).Type())
	name := fmt.Sprintf("app%d_%s", i, sanitize(strings.Join(sorts[1:], "_")+"__"+rs))
	fc.smt.declare(name, fmt.Sprintf("(declare-fun %s (%s) %s)", name, strings.Join(sorts, " "), rs))
	return name
}

// closureOrdinal finds which function literal (source order) of its enclosing declaration lit is
func (fc *FnCtx) closureKey(lit *ast.FuncLit) string {
	for f, d := range fc.pkg.decls {
		if d.Body == nil || lit.Pos() < d.Body.Pos() || lit.End() > d.Body.End() {
			continue
		}
		k, found := 0, 0
		ast.Inspect(d.Body, func(x ast.Node) bool {
			if l, ok := x.(*ast.FuncLit); ok {
				k++
				if l == lit {
					found = k
				}
			}
			return true
		})
		if found > 0 {
			return fmt.Sprintf("%s$%d", funcKey(f, fc.pkg.Types), found)
		}
	}
	return ""
}

// linkClosureContract: a function literal that has a (separately verified) contract Outer$N is a pure function of
// its arguments and captured values: its ensures clauses, with results replaced by applications of the closure
// value, are assumed for all arguments at the creation site.
func (fc *FnCtx) linkClosureContract(st *State, lit *ast.FuncLit, cv Val) {
	if fc.pkg.cf == nil {
		return
	}
	key := fc.closureKey(lit)
	ct := fc.pkg.cf.Contracts[key]
	if ct == nil || len(ct.Ensures) == 0 {
		return
	}
	sig, ok := fc.info.TypeOf(lit).(*types.Signature)
	if !ok || sig.Results().Len() == 0 {
		return
	}
	scope := map[string]Val{}
	var binds []string
	var args []string
	for _, fl := range lit.Type.Params.List {
		for _, n := range fl.Names {
			obj := fc.info.Defs[n]
			if obj == nil {
				continue
			}
			fc.smt.nfresh++
			q := fmt.Sprintf("%s!q%d", sanitize(n.Name), fc.smt.nfresh)
			binds = append(binds, "("+q+" "+fc.smt.sortOf(obj.Type())+")")
			args = append(args, q)
			scope[n.Name] = Val{q, obj.Type()}
		}
	}
	if len(args) != sig.Params().Len() {
		return
	}
	var apps []string
	for i := 0; i < sig.Results().Len(); i++ {
		a := "(" + fc.appFn(sig, i) + " " + cv.T + " " + strings.Join(args, " ") + ")"
		if len(args) == 0 {
			a = "(" + fc.appFn(sig, i) + " " + cv.T + ")"
		}
		apps = append(apps, a)
		rv := Val{a, sig.Results().At(i).Type()}
		scope[fmt.Sprintf("result%d", i)] = rv
		if i == 0 {
			scope["result"] = rv
		}
		if n := sig.Results().At(i).Name(); n != "" && n != "_" {
			scope[n] = rv
		}
	}
	env := &SpecEnv{fc: fc, st: st, old: st, scope: scope, oldScope: scope, pkg: fc.pkg, useVars: true}
	var body []string
	for _, rq := range ct.Requires {
		body = append(body, fc.safeSpec(env, rq.E, rq.Text).T)
	}
	pre := and(body...)
	for _, en := range ct.Ensures {
		t := fc.safeSpec(env, en.E, en.Text).T
		f := imp(pre, t)
		if len(binds) > 0 {
			f = "(forall (" + strings.Join(binds, " ") + ") (! " + f + " :pattern (" + apps[0] + ")))"
		}
		st.assume(f)
	}
}

// pureFuncValue: the contract declares the function-typed parameter/variable as pure (`pure f`): calling it has
// no effect and its results are a function of the arguments.
func (fc *FnCtx) pureFuncValue(call *ast.CallExpr) bool {
	name := exprText(call.Fun)
	for c := fc; c != nil; c = c.parent {
		if c.ct != nil {
			for _, p := range c.ct.PureFuncs {
				if p == name {
					return true
				}
			}
		}
	}
	return false
}

// pureApp: the i-th result of an `extern pure` function as an uninterpreted function of receiver and arguments
func (fc *FnCtx) pureApp(ct *Contract, recv *Val, args []Val, rt types.Type, i int) Val {
	var sorts, ats []string
	if recv != nil {
		sorts = append(sorts, fc.smt.sortOf(recv.Ty))
		ats = append(ats, recv.T)
	}
	for _, a := range args {
		sorts = append(sorts, fc.smt.sortOf(a.Ty))
		ats = append(ats, a.T)
	}
	name := fmt.Sprintf("pure_%s_%d_%s", sanitize(ct.Key), i, sanitize(strings.Join(sorts, "_")+"__"+fc.smt.sortOf(rt)))
	fc.smt.declare(name, fmt.Sprintf("(declare-fun %s (%s) %s)", name, strings.Join(sorts, " "), fc.smt.sortOf(rt)))
	t := name
	if len(ats) > 0 {
		t = "(" + name + " " + strings.Join(ats, " ") + ")"
	}
	return Val{t, rt}
}

// lookupContract: the contract that applies to a call of f from the function under verification
// (a caller-scoped extern `KEY@<function>` overrides the general one)
func (fc *FnCtx) lookupContract(f *types.Func) *Contract {
	ct := fc.eng.contractFor(f, fc.pkg)
	r := fc.root()
	if rp := r.pkg; rp != nil && rp.cf != nil && r.key != "" {
		suffix := "@" + strings.TrimPrefix(r.key, rp.Types.Name()+".")
		if sc, ok := rp.cf.Contracts[funcKey(f.Origin(), nil)+suffix]; ok {
			ct = sc
		} else if sc, ok := rp.cf.Contracts[funcKey(f.Origin(), rp.Types)+suffix]; ok {
			ct = sc
		}
	}
	return ct
}

// bumpCall counts a call of a function named in the `counts` clause of the contract under verification.
func (fc *FnCtx) bumpCall(st *State, name string) {
	r := fc.root()
	if r.ct == nil {
		return
	}
	for _, n := range r.ct.Counts {
		if n == name {
			if st.calls == nil {
				st.calls = map[string]string{}
			}
			cur := st.calls[name]
			if cur == "" {
				cur = "0"
			}
			st.calls[name] = "(+ " + cur + " 1)"
		}
	}
}

// soleLiteralOf: the function literal a local variable is bound to, if the variable is defined by `v := func...`
// and never assigned again in the enclosing function.
func (fc *FnCtx) soleLiteralOf(v *types.Var) *ast.FuncLit {
	r := fc.root()
	if r.decl == nil || r.decl.Body == nil {
		return nil
	}
	var lit *ast.FuncLit
	n := 0
	ast.Inspect(r.decl.Body, func(x ast.Node) bool {
		as, ok := x.(*ast.AssignStmt)
		if !ok {
			return true
		}
		for i, l := range as.Lhs {
			id, ok := l.(*ast.Ident)
			if !ok {
				continue
			}
			if r.info.Defs[id] == v || r.info.Uses[id] == v {
				n++
				if i < len(as.Rhs) {
					if fl, ok := ast.Unparen(as.Rhs[i]).(*ast.FuncLit); ok {
						lit = fl
					}
				}
			}
		}
		return true
	})
	if n == 1 {
		return lit
	}
	return nil
}

func (fc *FnCtx) noteTrusted(s string) {
	r := fc.root()
	if r.trusted == nil {
		r.trusted = map[string]bool{}
	}
	r.trusted[s] = true
}

// sleepOrdinal: syntactic ordinal of a time.Sleep call in the function under verification
func (fc *FnCtx) sleepOrdinal(call *ast.CallExpr) int {
	r := fc.root()
	n, ord := 0, 0
	if r.decl == nil || r.decl.Body == nil {
		return 0
	}
	ast.Inspect(r.decl.Body, func(x ast.Node) bool {
		if c, ok := x.(*ast.CallExpr); ok {
			if se, ok := ast.Unparen(c.Fun).(*ast.SelectorExpr); ok && se.Sel.Name == "Sleep" {
				n++
				if c == call {
					ord = n
				}
			}
		}
		return true
	})
	return ord
}

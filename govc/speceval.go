package main

// Evaluation of spec expressions into SMT terms.

import (
	"go/ast"
	"fmt"
	"go/token"
	"go/types"
	"sort"
	"strings"
)

type SpecEnv struct {
	fc       *FnCtx
	st, old  *State
	scope    map[string]Val
	oldScope map[string]Val
	pkg      *Pkg
	inOld    bool
	useVars  bool
	pos      token.Pos
	depth    int
	loopEntry *State // state at the entry of the loop whose invariant is being evaluated (entry(e))
	resIndex int // which result of a pure call is meant (res1(x.M()))
	outermost bool // resolve local names to the outermost declaration (postconditions) instead of the innermost
}

func (env *SpecEnv) copy() *SpecEnv {
	n := *env
	n.scope = make(map[string]Val, len(env.scope)+2)
	for k, v := range env.scope {
		n.scope[k] = v
	}
	return &n
}

func (fc *FnCtx) specEnvFor(st *State, pkgPath string) *SpecEnv {
	p := fc.eng.pkgs[pkgPath]
	if p == nil {
		p = fc.pkg
	}
	return &SpecEnv{fc: fc, st: st, old: st, scope: map[string]Val{}, oldScope: map[string]Val{}, pkg: p}
}

func (env *SpecEnv) state() *State {
	if env.inOld && env.old != nil {
		return env.old
	}
	return env.st
}

type specErr struct{ msg string }

func sfail(format string, a ...any) { panic(specErr{fmt.Sprintf(format, a...)}) }

var intT = types.Typ[types.Int]
var boolT = types.Typ[types.Bool]

var specConsts = map[string]string{
	"MaxInt32": "2147483647", "MinInt32": "(- 2147483648)", "MaxInt64": "9223372036854775807", "MinInt64": "(- 9223372036854775808)",
	"MaxInt": "9223372036854775807", "MaxID": "4611686018427387904", "MaxAlloc": MaxAlloc, "MaxUint32": "4294967295",
}

// resolveType resolves a type written in a contract (relative to pkg)
func (eng *Engine) resolveType(p *Pkg, s string) types.Type {
	s = strings.TrimSpace(s)
	if strings.HasPrefix(s, "*") {
		t := eng.resolveType(p, s[1:])
		if t == nil {
			return nil
		}
		return types.NewPointer(t)
	}
	if strings.HasPrefix(s, "[]") {
		t := eng.resolveType(p, s[2:])
		if t == nil {
			return nil
		}
		return types.NewSlice(t)
	}
	if s == "ref" {
		return types.Typ[types.UnsafePointer]
	}
	if lb := strings.Index(s, "["); lb > 0 && strings.HasSuffix(s, "]") {
		// instantiated generic type: Name[Arg, ...]
		base := eng.resolveType(p, s[:lb])
		if base == nil {
			return nil
		}
		var args []types.Type
		for _, a := range splitTopLevel(s[lb+1:len(s)-1], ',') {
			at := eng.resolveType(p, a)
			if at == nil {
				return nil
			}
			args = append(args, at)
		}
		inst, err := types.Instantiate(nil, base, args, false)
		if err != nil {
			return nil
		}
		return inst
	}
	if t, ok := eng.curTParams[s]; ok {
		return t
	}
	if i := strings.Index(s, "."); i >= 0 {
		pn, tn := s[:i], s[i+1:]
		if p != nil {
			for _, imp := range p.Types.Imports() {
				if imp.Name() == pn {
					if o := imp.Scope().Lookup(tn); o != nil {
						return o.Type()
					}
				}
			}
			// import aliases used in the package's files
			if path, ok := p.importAlias[pn]; ok {
				for _, imp := range p.Types.Imports() {
					if imp.Path() == path {
						if o := imp.Scope().Lookup(tn); o != nil {
							return o.Type()
						}
					}
				}
			}
		}
		for _, q := range eng.pkgs {
			if q.Types.Name() == pn {
				if o := q.Types.Scope().Lookup(tn); o != nil {
					return o.Type()
				}
			}
		}
		return nil
	}
	if o := types.Universe.Lookup(s); o != nil {
		if tn, ok := o.(*types.TypeName); ok {
			return tn.Type()
		}
	}
	if p != nil {
		if o := p.Types.Scope().Lookup(s); o != nil {
			if tn, ok := o.(*types.TypeName); ok {
				return tn.Type()
			}
		}
	}
	return nil
}

func (env *SpecEnv) lookupVarByName(name string) (Val, bool) {
	st := env.state()
	var best types.Object
	for o := range st.vars {
		if o.Name() != name {
			continue
		}
		if best == nil || (!env.outermost && o.Pos() > best.Pos()) || (env.outermost && o.Pos() < best.Pos()) {
			best = o
		}
	}
	if best == nil {
		return Val{}, false
	}
	v := st.vars[best]
	if env.fc.isBoxed(best) {
		return env.fc.deref(st, v), true
	}
	return v, true
}

func (fc *FnCtx) specEval(env *SpecEnv, e SExpr) Val {
	env.depth++
	defer func() { env.depth-- }()
	if env.depth > 60 {
		sfail("spec recursion too deep")
	}
	smt := fc.smt
	switch e := e.(type) {
	case *SNum:
		return Val{e.V, intT}
	case *SStr:
		return Val{smt.strLit(e.V), types.Typ[types.String]}
	case *SIdent:
		switch e.Name {
		case "true", "false":
			return Val{e.Name, boolT}
		case "nil":
			return Val{"0", types.Typ[types.UntypedNil]}
		}
		if env.inOld {
			if v, ok := env.oldScope[e.Name]; ok {
				return v
			}
		}
		if v, ok := env.scope[e.Name]; ok {
			return v
		}
		if c, ok := specConsts[e.Name]; ok {
			return Val{c, intT}
		}
		if e.Name == "$recvs" {
			if s := env.state().recvs; s != "" {
				return Val{s, intT}
			}
			return Val{"0", intT}
		}
		if e.Name == "$sends" {
			if s := env.state().sends; s != "" {
				return Val{s, intT}
			}
			return Val{"0", intT}
		}
		if env.useVars {
			if v, ok := env.lookupVarByName(e.Name); ok {
				return v
			}
			if env.outermost {
				// a postcondition may name a local of an inner scope; on a path where it is not live its value is
				// arbitrary (the clause must then hold for every value)
				if v, ok := fc.undefinedLocal(env.state(), e.Name); ok {
					return v
				}
			}
		}
		// package-level constant / variable of the contract's package
		if env.pkg != nil {
			if o := env.pkg.Types.Scope().Lookup(e.Name); o != nil {
				switch o := o.(type) {
				case *types.Const:
					if v, ok := constTerm(fc, o.Val(), o.Type()); ok {
						return v
					}
				case *types.Var:
					return fc.globalVar(env.state(), o)
				}
			}
		}
		// nullary uninterpreted spec function
		if sf := fc.eng.findSpecFn(env.pkg, e.Name); sf != nil && len(sf.Params) == 0 && sf.RecvT == "" {
			return fc.callSpecFn(env, sf, nil, nil)
		}
		sfail("unknown name %q in spec", e.Name)
	case *SOld:
		n := *env
		n.inOld = true
		return fc.specEval(&n, e.X)
	case *SLet:
		v := fc.specEval(env, e.Val)
		n := env.copy()
		n.scope[e.Name] = v
		if env.inOld {
			n.oldScope = map[string]Val{}
			for k, x := range env.oldScope {
				n.oldScope[k] = x
			}
			n.oldScope[e.Name] = v
		}
		return fc.specEval(n, e.Body)
	case *SUn:
		v := fc.specEval(env, e.X)
		if e.Op == "!" {
			return Val{not(v.T), boolT}
		}
		return Val{"(- " + v.T + ")", v.Ty}
	case *SBin:
		return fc.specBin(env, e)
	case *SSel:
		return fc.specSel(env, e)
	case *SIndex:
		x := fc.specEval(env, e.X)
		i := fc.specEval(env, e.I)
		st := env.state()
		switch u := x.Ty.Underlying().(type) {
		case *types.Slice:
			k, ks := fc.elemsKey(u.Elem())
			return Val{sel(sel(fc.comp(st, k, ks), "(s_base "+x.T+")"), i.T), u.Elem()}
		case *types.Map:
			dk, ds, vk, vs := fc.mapKeys(u)
			dom := sel(sel(fc.comp(st, dk, ds), x.T), i.T)
			val := sel(sel(fc.comp(st, vk, vs), x.T), i.T)
			return Val{ite(dom, val, smt.zero(u.Elem())), u.Elem()}
		case *types.Array:
			return Val{sel(x.T, i.T), u.Elem()}
		}
		sfail("index on %s", x.Ty)
	case *SQuant:
		n := env.copy()
		var binds []string
		var guards []string
		for _, b := range e.Vars {
			t := fc.eng.resolveType(env.pkg, b.Type)
			if t == nil {
				sfail("unknown type %q in quantifier", b.Type)
			}
			smt.nfresh++
			name := fmt.Sprintf("%s!q%d", sanitize(b.Name), smt.nfresh)
			binds = append(binds, "("+name+" "+smt.sortOf(t)+")")
			v := Val{name, t}
			n.scope[b.Name] = v
			if env.inOld {
				no := map[string]Val{}
				for k, x := range n.oldScope {
					no[k] = x
				}
				no[b.Name] = v
				n.oldScope = no
			}
			// struct-valued bound variables range over well-typed values
			if _, ok := t.Underlying().(*types.Struct); ok {
				guards = append(guards, fc.typeInvNoHeap(v)...)
			}
		}
		body := fc.specEval(n, e.Body)
		bt := body.T
		if len(guards) > 0 {
			if e.Kind == "forall" {
				bt = imp(and(guards...), bt)
			} else {
				bt = and(append(guards, bt)...)
			}
		}
		if len(e.Trig) > 0 {
			var ps []string
			okPat := true
			for _, t := range e.Trig {
				pt := fc.specEval(n, t).T
				for _, bad := range []string{"(ite ", "(and ", "(or ", "(not ", "(= ", "(=> ", "(<= ", "(< ", "(>= ", "(> "} {
					if strings.Contains(pt, bad) {
						okPat = false
					}
				}
				ps = append(ps, pt)
			}
			if okPat {
				bt = "(! " + bt + " :pattern (" + strings.Join(ps, " ") + "))"
			}
		}
		return Val{"(" + e.Kind + " (" + strings.Join(binds, " ") + ") " + bt + ")", boolT}
	case *SLit:
		t := fc.eng.resolveType(env.pkg, e.Type)
		if t == nil {
			sfail("unknown type %q in literal", e.Type)
		}
		su, ok := t.Underlying().(*types.Struct)
		if !ok {
			sfail("literal of non-struct %s", e.Type)
		}
		ss := smt.structSort(t, su)
		vals := make([]string, len(ss.fields))
		for i, f := range ss.fields {
			vals[i] = smt.zero(f.Type())
		}
		for _, fl := range e.Fields {
			found := false
			for i, f := range ss.fields {
				if f.Name() == fl.Name {
					vals[i] = fc.specEval(env, fl.Val).T
					found = true
				}
			}
			if !found {
				sfail("no field %s in %s", fl.Name, e.Type)
			}
		}
		if len(vals) == 0 {
			return Val{ss.ctor(), t}
		}
		return Val{"(" + ss.ctor() + " " + strings.Join(vals, " ") + ")", t}
	case *SCall:
		return fc.specCall(env, e)
	}
	sfail("unsupported spec expression %T", e)
	return Val{}
}

func (fc *FnCtx) typeInvNoHeap(v Val) []string {
	var out []string
	t := types.Unalias(v.Ty)
	switch u := t.Underlying().(type) {
	case *types.Basic:
		if lo, hi, ok := intRange(t); ok {
			out = append(out, fmt.Sprintf("(and (<= %s %s) (<= %s %s))", lo, v.T, v.T, hi))
		}
	case *types.Struct:
		if isOpaqueStruct(t) {
			return nil
		}
		ss := fc.smt.structSort(t, u)
		for i, f := range ss.fields {
			out = append(out, fc.typeInvNoHeap(Val{"(" + ss.sels[i] + " " + v.T + ")", f.Type()})...)
		}
	}
	return out
}

func (fc *FnCtx) specBin(env *SpecEnv, e *SBin) Val {
	switch e.Op {
	case "==>":
		a := fc.specEval(env, e.X)
		b := fc.specEval(env, e.Y)
		return Val{imp(a.T, b.T), boolT}
	case "<==>":
		a := fc.specEval(env, e.X)
		b := fc.specEval(env, e.Y)
		return Val{eq(a.T, b.T), boolT}
	case "&&":
		a := fc.specEval(env, e.X)
		b := fc.specEval(env, e.Y)
		return Val{and(a.T, b.T), boolT}
	case "||":
		a := fc.specEval(env, e.X)
		b := fc.specEval(env, e.Y)
		return Val{or(a.T, b.T), boolT}
	case "in":
		k := fc.specEval(env, e.X)
		m := fc.specEval(env, e.Y)
		if m.Ty != nil {
			if mt, ok := m.Ty.Underlying().(*types.Map); ok {
				dk, ds, _, _ := fc.mapKeys(mt)
				return Val{sel(sel(fc.comp(env.state(), dk, ds), m.T), k.T), boolT}
			}
		}
		// set value (Array K Bool)
		return Val{sel(m.T, k.T), boolT}
	}
	a := fc.specEval(env, e.X)
	b := fc.specEval(env, e.Y)
	switch e.Op {
	case "==", "!=":
		at, bt := a.T, b.T
		// nil vs slice
		if _, ok := a.Ty.Underlying().(*types.Slice); ok && isUntypedNil(b.Ty) {
			at, bt = "(s_base "+a.T+")", "0"
		}
		if _, ok := b.Ty.Underlying().(*types.Slice); ok && isUntypedNil(a.Ty) {
			at, bt = "0", "(s_base "+b.T+")"
		}
		r := eq(at, bt)
		if e.Op == "!=" {
			r = not(r)
		}
		return Val{r, boolT}
	case "<", "<=", ">", ">=":
		return Val{"(" + e.Op + " " + a.T + " " + b.T + ")", boolT}
	case "+":
		if isStringType(a.Ty) {
			return Val{"(str_concat " + a.T + " " + b.T + ")", a.Ty}
		}
		return Val{"(+ " + a.T + " " + b.T + ")", a.Ty}
	case "-":
		return Val{"(- " + a.T + " " + b.T + ")", a.Ty}
	case "*":
		return Val{"(* " + a.T + " " + b.T + ")", a.Ty}
	case "/":
		// spec-level division is Euclidean (SMT div); it coincides with Go's for non-negative dividends
		return Val{edivT(a.T, b.T), a.Ty}
	case "%":
		return Val{emodT(a.T, b.T), a.Ty}
	}
	sfail("operator %s", e.Op)
	return Val{}
}

func (fc *FnCtx) specSel(env *SpecEnv, e *SSel) Val {
	// qualified constant pkg.Name
	if id, ok := e.X.(*SIdent); ok {
		if _, bound := env.scope[id.Name]; !bound {
			if _, bound2 := env.oldScope[id.Name]; !bound2 {
				if t := fc.eng.lookupQualified(env.pkg, id.Name, e.Name); t != nil {
					switch o := t.(type) {
					case *types.Const:
						if v, ok := constTerm(fc, o.Val(), o.Type()); ok {
							return v
						}
					case *types.Var:
						return fc.globalVar(env.state(), o)
					}
				}
			}
		}
	}
	x := fc.specEval(env, e.X)
	st := env.state()
	// ghost field?
	if g := fc.eng.ghostField(x.Ty, e.Name); g != nil {
		gt := fc.eng.resolveGhostType(g)
		key := "F$" + structKeyName(x.Ty) + ".ghost_" + g.Name
		return Val{sel(fc.comp(st, key, "(Array Int "+fc.smt.sortOf(gt)+")"), x.T), gt}
	}
	if _, su, _ := derefStruct(x.Ty); su == nil {
		// method value on a non-struct (e.g. interface) value
		if obj, _, _ := types.LookupFieldOrMethod(x.Ty, true, nil, e.Name); obj != nil {
			if m, ok := obj.(*types.Func); ok {
				return Val{fc.methodValueTerm(x, m), m.Type()}
			}
		}
	}
	if _, su, _ := derefStruct(x.Ty); su != nil {
		obj, idx, _ := types.LookupFieldOrMethod(x.Ty, true, nil, e.Name)
		if obj == nil {
			// unexported field of another package: search by name
			for i := 0; i < su.NumFields(); i++ {
				if su.Field(i).Name() == e.Name {
					return fc.readFieldSpec(st, x, i)
				}
			}
			sfail("no field %q in %s", e.Name, x.Ty)
		}
		if m, ok := obj.(*types.Func); ok {
			// method value in a spec: the same uninterpreted function of the receiver as in code
			return Val{fc.methodValueTerm(x, m), m.Type()}
		}
		if _, ok := obj.(*types.Var); !ok {
			sfail("%q is not a field of %s", e.Name, x.Ty)
		}
		cur := x
		for _, i := range idx {
			cur = fc.readFieldSpec(st, cur, i)
		}
		return cur
	}
	sfail("selector .%s on %s", e.Name, x.Ty)
	return Val{}
}

// readFieldSpec is readField without adding assumptions to the state
func (fc *FnCtx) readFieldSpec(st *State, base Val, i int) Val {
	sT, su, isPtr := derefStruct(base.Ty)
	f := su.Field(i)
	if isPtr {
		k, ks := fc.fieldKey(sT, f)
		return Val{sel(fc.comp(st, k, ks), base.T), f.Type()}
	}
	if isOpaqueStruct(sT) {
		return fc.opaqueField(nil, base, sT, f)
	}
	ss := fc.smt.structSort(sT, su)
	return Val{"(" + ss.sels[i] + " " + base.T + ")", f.Type()}
}

func typeTextRel(t types.Type, p *Pkg) string {
	return types.TypeString(t, func(q *types.Package) string {
		if p != nil && q == p.Types {
			return ""
		}
		return q.Name()
	})
}

func (fc *FnCtx) specCall(env *SpecEnv, e *SCall) Val {
	smt := fc.smt
	st := env.state()
	if id, ok := e.Fun.(*SIdent); ok {
		args := func(i int) Val { return fc.specEval(env, e.Args[i]) }
		switch id.Name {
		case "len":
			x := args(0)
			switch x.Ty.Underlying().(type) {
			case *types.Slice:
				return Val{"(s_len " + x.T + ")", intT}
			case *types.Map:
				return Val{sel(fc.comp(st, mapLenKey, mapLenSort), x.T), intT}
			case *types.Basic:
				return Val{"(strlen " + x.T + ")", intT}
			}
			sfail("len of %s", x.Ty)
		case "cap":
			return Val{"(s_cap " + args(0).T + ")", intT}
		case "ite":
			c, a, b := args(0), args(1), args(2)
			return Val{ite(c.T, a.T, b.T), a.Ty}
		case "min":
			a, b := args(0), args(1)
			return Val{ite("(<= "+a.T+" "+b.T+")", a.T, b.T), a.Ty}
		case "max":
			a, b := args(0), args(1)
			return Val{ite("(>= "+a.T+" "+b.T+")", a.T, b.T), a.Ty}
		case "clamp":
			v, lo, hi := args(0), args(1), args(2)
			return Val{fmt.Sprintf("(ite (< %s %s) %s (ite (> %s %s) %s %s))", v.T, lo.T, lo.T, v.T, hi.T, hi.T, v.T), v.Ty}
		case "abs":
			v := args(0)
			return Val{ite("(>= "+v.T+" 0)", v.T, "(- "+v.T+")"), v.Ty}
		case "int", "int32", "int64", "uint32", "uint64", "uint":
			v := args(0)
			return Val{v.T, types.Universe.Lookup(id.Name).Type()}
		case "typename":
			// typename(x): unqualified name of the dynamic type of an interface / pointer value
			v := args(0)
			smt.declare("tyname", "(declare-fun tyname (Int) Str)")
			return Val{"(tyname (dyntype " + v.T + "))", types.Typ[types.String]}
		case "calls":
			// calls(f): number of calls of f made by this function so far (f must be listed in `counts`)
			name := specTypeText(e.Args[0])
			if c, ok := st.calls[name]; ok && c != "" {
				return Val{c, intT}
			}
			return Val{"0", intT}
		case "held":
			// held(x.mu): lock state is tracked syntactically
			lid := fc.specLockID(env, e.Args[0])
			_, h := st.locks[lid]
			if h {
				return Val{"true", boolT}
			}
			return Val{"false", boolT}
		case "open":
			ch := args(0)
			return Val{sel(fc.comp(st, chanOpenKey, chanOpenSort), ch.T), boolT}
		case "fresh":
			x := args(0)
			t := x.T
			if _, ok := x.Ty.Underlying().(*types.Slice); ok {
				t = "(s_base " + x.T + ")"
			}
			top := "top0"
			if en := fc.root().entry; en != nil {
				top = en.top
			}
			if env.old != nil {
				top = env.old.top
			}
			return Val{"(> " + t + " " + top + ")", boolT}
		case "methodReceiver":
			// methodReceiver(f, "*pkg.T", "M"): the receiver a with f == a.M (inverse of the method-value function)
			f := args(0)
			tn, mn := specTypeText(e.Args[1]), specTypeText(e.Args[2])
			t := fc.eng.resolveType(env.pkg, tn)
			if t == nil {
				sfail("methodReceiver: unknown type %s", tn)
			}
			obj, _, _ := types.LookupFieldOrMethod(t, true, nil, mn)
			m, ok := obj.(*types.Func)
			if !ok {
				sfail("methodReceiver: %s has no method %s", tn, mn)
			}
			mv := fc.methodValueTerm(Val{"a", t}, m)
			mvName := mv[1:strings.Index(mv, " ")]
			inv := "inv_" + mvName
			smt.declare(inv, fmt.Sprintf("(declare-fun %s (Int) %s)", inv, smt.sortOf(t)))
			smt.axiom(fmt.Sprintf("(forall ((a %s)) (! (= (%s (%s a)) a) :pattern ((%s a))))", smt.sortOf(t), inv, mvName, mvName))
			return Val{"(" + inv + " " + f.T + ")", t}
		case "entry":
			if env.loopEntry == nil {
				sfail("entry(e) is only meaningful in loop invariants")
			}
			n := *env
			n.st = env.loopEntry
			n.inOld = false
			return fc.specEval(&n, e.Args[0])
		case "newSince":
			// the storage x refers to was allocated after the entry of the loop whose invariant this is
			if env.loopEntry == nil {
				sfail("newSince(x) is only meaningful in loop invariants")
			}
			x := args(0)
			t := x.T
			if _, ok := x.Ty.Underlying().(*types.Slice); ok {
				t = "(s_base " + x.T + ")"
			}
			return Val{"(> " + t + " " + env.loopEntry.top + ")", boolT}
		case "thisIteration":
			// the storage x refers to was allocated during the current iteration of the innermost loop that encloses
			// the statement the clause is attached to (sendpre): "made for this element, not shared between elements"
			var best *iterMark
			r := fc.root()
			for i := range r.iterMarks {
				m := &r.iterMarks[i]
				if env.pos.IsValid() && m.pos <= env.pos && env.pos < m.end && (best == nil || (m.end-m.pos) <= (best.end-best.pos)) {
					best = m
				}
			}
			if best == nil {
				sfail("thisIteration(x): the clause is not attached to a statement inside a loop")
			}
			x := args(0)
			t := x.T
			if _, ok := x.Ty.Underlying().(*types.Slice); ok {
				t = "(s_base " + x.T + ")"
			}
			return Val{"(> " + t + " " + best.top + ")", boolT}
		case "sametype":
			a, b := args(0), args(1)
			return Val{eq("(dyntype "+a.T+")", "(dyntype "+b.T+")"), boolT}
		case "allocated":
			// the value refers to storage that exists in the current state (not to a later allocation)
			x := args(0)
			t := x.T
			if _, ok := x.Ty.Underlying().(*types.Slice); ok {
				t = "(s_base " + x.T + ")"
			}
			return Val{"(<= " + t + " " + st.top + ")", boolT}
		case "typeis":
			x := args(0)
			tn := specTypeText(e.Args[1])
			t := fc.eng.resolveType(env.pkg, tn)
			if t == nil {
				sfail("unknown type %s in typeis", tn)
			}
			return Val{and(not(eq(x.T, "0")), eq("(dyntype "+x.T+")", smt.typeTag(t))), boolT}
		case "cast":
			x := args(0)
			tn := specTypeText(e.Args[1])
			t := fc.eng.resolveType(env.pkg, tn)
			if t == nil {
				sfail("unknown type %s in cast", tn)
			}
			return fc.unboxSpec(x, t)
		case "deref":
			x := args(0)
			return fc.derefSpec(st, x)
		case "base":
			return Val{"(s_base " + args(0).T + ")", intT}
		case "zero":
			tn := specTypeText(e.Args[0])
			t := fc.eng.resolveType(env.pkg, tn)
			if t == nil {
				sfail("unknown type %s in zero", tn)
			}
			return Val{smt.zero(t), t}
		case "call0", "call1", "call2":
			f := args(0)
			sig, ok := f.Ty.Underlying().(*types.Signature)
			if !ok {
				sfail("%s: first argument is not a function value (%s)", id.Name, f.Ty)
			}
			idx := int(id.Name[4] - '0')
			var ats []string
			for i := 1; i < len(e.Args); i++ {
				ats = append(ats, args(i).T)
			}
			t := "(" + fc.appFn(sig, idx) + " " + f.T + " " + strings.Join(ats, " ") + ")"
			if len(ats) == 0 {
				t = "(" + fc.appFn(sig, idx) + " " + f.T + ")"
			}
			return Val{t, sig.Results().At(idx).Type()}
		case "seqlen":
			it := args(0)
			fc.smt.declare("seqlen", "(declare-fun seqlen (Int) Int)")
			return Val{"(seqlen " + it.T + ")", intT}
		case "seqkey", "seqval":
			it := args(0)
			i := args(1)
			sig, _ := it.Ty.Underlying().(*types.Signature)
			if sig == nil || sig.Params().Len() != 1 {
				sfail("%s: not an iterator", id.Name)
			}
			ysig, _ := sig.Params().At(0).Type().Underlying().(*types.Signature)
			if ysig == nil {
				sfail("%s: not an iterator", id.Name)
			}
			var vt types.Type
			if ysig.Params().Len() == 2 {
				vt = ysig.Params().At(1).Type()
			}
			_, kf, vf := fc.seqFns(ysig.Params().At(0).Type(), vt)
			if id.Name == "seqkey" {
				return Val{"(" + kf + " " + it.T + " " + i.T + ")", ysig.Params().At(0).Type()}
			}
			return Val{"(" + vf + " " + it.T + " " + i.T + ")", vt}
		case "res0", "res1", "res2":
			inner, ok := e.Args[0].(*SCall)
			if !ok {
				sfail("%s needs a call argument", id.Name)
			}
			n := *env
			n.resIndex = int(id.Name[3] - '0')
			return fc.specCall(&n, inner)
		case "hasPrefix", "hasSuffix", "contains":
			n := "str_" + strings.ToLower(id.Name)
			smt.declare(n, fmt.Sprintf("(declare-fun %s (Str Str) Bool)", n))
			return Val{"(" + n + " " + args(0).T + " " + args(1).T + ")", boolT}
		case "mapEq":
			// mapEq(a, b): same domain and values
			a, b := args(0), args(1)
			mt := a.Ty.Underlying().(*types.Map)
			dk, ds, vk, vs := fc.mapKeys(mt)
			sa, sb := env.state(), env.state()
			_ = sb
			return Val{and(eq(sel(fc.comp(sa, dk, ds), a.T), sel(fc.comp(sa, dk, ds), b.T)), eq(sel(fc.comp(sa, vk, vs), a.T), sel(fc.comp(sa, vk, vs), b.T))), boolT}
		}
		if sf := fc.eng.findSpecFn(env.pkg, id.Name); sf != nil {
			var as []Val
			for i := range e.Args {
				as = append(as, fc.specEval(env, e.Args[i]))
			}
			return fc.callSpecFn(env, sf, nil, as)
		}
		// a package-level Go function with a pure contract
		if env.pkg != nil {
			if f, ok := env.pkg.Types.Scope().Lookup(id.Name).(*types.Func); ok {
				if ct := fc.eng.contractFor(f, env.pkg); ct != nil && ct.Pure {
					sig := f.Type().(*types.Signature)
					var as []Val
					for i := range e.Args {
						a := fc.specEval(env, e.Args[i])
						if i < sig.Params().Len() {
							a = fc.specArgAs(env, a, sig.Params().At(i).Type())
						}
						as = append(as, a)
					}
					ri := env.resIndex
					return fc.pureApp(ct, nil, as, sig.Results().At(ri).Type(), ri)
				}
			}
		}
		sfail("unknown spec function %q", id.Name)
	}
	if sl, ok := e.Fun.(*SSel); ok {
		if id, ok := sl.X.(*SIdent); ok {
			if _, bound := env.scope[id.Name]; !bound {
				// spec function of another package: pkg.name(args)
				for _, q := range fc.eng.importedPkgs(env.pkg, id.Name) {
					if q.cf == nil {
						continue
					}
					if sf, ok := q.cf.SpecFns[sl.Name]; ok {
						var as []Val
						for i := range e.Args {
							as = append(as, fc.specEval(env, e.Args[i]))
						}
						return fc.callSpecFn(env, sf, nil, as)
					}
				}
				if o := fc.eng.lookupQualified(env.pkg, id.Name, sl.Name); o != nil {
					if f, ok := o.(*types.Func); ok {
						if ct := fc.eng.contractFor(f, env.pkg); ct != nil && ct.Pure {
							sig := f.Type().(*types.Signature)
							var as []Val
							for i := range e.Args {
								a := fc.specEval(env, e.Args[i])
								if i < sig.Params().Len() {
									if _, isTP := types.Unalias(sig.Params().At(i).Type()).(*types.TypeParam); !isTP {
										a = fc.specArgAs(env, a, sig.Params().At(i).Type())
									}
								}
								as = append(as, a)
							}
							ri := env.resIndex
							if ri >= sig.Results().Len() {
								sfail("%s has only %d results", sl.Name, sig.Results().Len())
							}
							return fc.pureApp(ct, nil, as, sig.Results().At(ri).Type(), ri)
						}
						sfail("spec call of %s.%s: not an `extern pure` function", id.Name, sl.Name)
					}
				}
			}
		}
		recv := fc.specEval(env, sl.X)
		key := "(" + typeTextRel(recv.Ty, env.pkg) + ")." + sl.Name
		sf := fc.eng.findSpecFn(env.pkg, key)
		if sf == nil {
			// try the type's own package
			if n := namedOf(recv.Ty); n != nil && n.Obj().Pkg() != nil {
				if p := fc.eng.pkgs[n.Obj().Pkg().Path()]; p != nil {
					key2 := "(" + typeTextRel(recv.Ty, p) + ")." + sl.Name
					if sf = fc.eng.findSpecFn(p, key2); sf != nil {
						n := *env
						n.pkg = p
						env = &n
					}
				}
			}
		}
		if sf == nil {
			if obj, _, _ := types.LookupFieldOrMethod(recv.Ty, true, nil, sl.Name); obj != nil {
				if m, ok := obj.(*types.Func); ok {
					if ct := fc.eng.contractFor(m, env.pkg); ct != nil && ct.Pure {
						sig := m.Type().(*types.Signature)
						var as []Val
						for i := range e.Args {
							as = append(as, fc.specEval(env, e.Args[i]))
						}
						ri := env.resIndex
						if ri >= sig.Results().Len() {
							sfail("%s has only %d results", sl.Name, sig.Results().Len())
						}
						return fc.pureApp(ct, &recv, as, sig.Results().At(ri).Type(), ri)
					}
				}
			}
			sfail("unknown spec method %s", key)
		}
		var as []Val
		for i := range e.Args {
			as = append(as, fc.specEval(env, e.Args[i]))
		}
		return fc.callSpecFn(env, sf, &recv, as)
	}
	sfail("unsupported call form in spec")
	return Val{}
}

func namedOf(t types.Type) *types.Named {
	t = types.Unalias(t)
	if p, ok := t.Underlying().(*types.Pointer); ok {
		t = types.Unalias(p.Elem())
	}
	n, _ := t.(*types.Named)
	return n
}

func specTypeText(e SExpr) string {
	switch e := e.(type) {
	case *SIdent:
		return e.Name
	case *SSel:
		return specTypeText(e.X) + "." + e.Name
	case *SUn:
		return e.Op + specTypeText(e.X)
	case *SStr:
		return e.V
	}
	return "?"
}

func (fc *FnCtx) unboxSpec(x Val, t types.Type) Val {
	if isInterface(t) || isRefLike(t) {
		return Val{x.T, t}
	}
	srt := fc.smt.sortOf(t)
	un := "unbox_" + sanitize(srt)
	fn := "box_" + sanitize(srt)
	fc.smt.declare(fn, fmt.Sprintf("(declare-fun %s (%s) Int)", fn, srt))
	fc.smt.declare(un, fmt.Sprintf("(declare-fun %s (Int) %s)", un, srt))
	return Val{"(" + un + " " + x.T + ")", t}
}

func (fc *FnCtx) derefSpec(st *State, p Val) Val {
	pt, ok := p.Ty.Underlying().(*types.Pointer)
	if !ok {
		sfail("deref of %s", p.Ty)
	}
	if su, isStruct := pt.Elem().Underlying().(*types.Struct); isStruct && !isTimeType(pt.Elem()) {
		ss := fc.smt.structSort(pt.Elem(), su)
		if len(ss.fields) == 0 {
			return Val{ss.ctor(), pt.Elem()}
		}
		var parts []string
		for i := range ss.fields {
			parts = append(parts, fc.readFieldSpec(st, p, i).T)
		}
		return Val{"(" + ss.ctor() + " " + strings.Join(parts, " ") + ")", pt.Elem()}
	}
	k, ks := fc.ptrKey(pt.Elem())
	return Val{sel(fc.comp(st, k, ks), p.T), pt.Elem()}
}

func (fc *FnCtx) specLockID(env *SpecEnv, e SExpr) string {
	sl, ok := e.(*SSel)
	if !ok {
		sfail("held() needs x.mutexField")
	}
	x := fc.specEval(env, sl.X)
	return lockID(x, sl.Name)
}

func lockID(base Val, field string) string {
	return structKeyName(base.Ty) + "." + field + "@" + base.T
}

func (fc *FnCtx) callSpecFn(env *SpecEnv, sf *SpecFn, recv *Val, args []Val) Val {
	smt := fc.smt
	p := fc.eng.pkgs[sf.Pkg]
	if p == nil {
		p = env.pkg
	}
	rt := fc.eng.resolveType(p, sf.Result)
	if rt == nil {
		sfail("unknown result type %q of spec function %s", sf.Result, sf.Name)
	}
	if len(args) != len(sf.Params) {
		sfail("spec function %s expects %d arguments, got %d", sf.Name, len(sf.Params), len(args))
	}
	if sf.Name == "strlower" && len(args) == 1 {
		// lower-casing a literal that is already lower case is the identity (decided on the literal itself)
		for lit, name := range smt.strLits {
			if name == args[0].T && strings.ToLower(lit) == lit {
				return args[0]
			}
		}
	}
	if sf.Body == nil || sf.Rec {
		// uninterpreted or recursive: SMT-level function over its arguments
		name := "sf_" + sanitize(sf.Key)
		var sorts []string
		var ats []string
		if recv != nil {
			sorts = append(sorts, smt.sortOf(recv.Ty))
			ats = append(ats, recv.T)
		}
		for i, b := range sf.Params {
			t := fc.eng.resolveType(p, b.Type)
			if t == nil {
				sfail("unknown parameter type %q of %s", b.Type, sf.Name)
			}
			sorts = append(sorts, smt.sortOf(t))
			ats = append(ats, args[i].T)
		}
		if !smt.declSeen[name] {
			smt.declSeen[name] = true
			if sf.Body == nil {
				smt.decls = append(smt.decls, fmt.Sprintf("(declare-fun %s (%s) %s)", name, strings.Join(sorts, " "), smt.sortOf(rt)))
			} else {
				// define-fun-rec over pure parameters
				n := &SpecEnv{fc: fc, st: env.st, old: env.old, scope: map[string]Val{}, oldScope: map[string]Val{}, pkg: p}
				var ps []string
				for i, b := range sf.Params {
					t := fc.eng.resolveType(p, b.Type)
					pn := "p_" + sanitize(b.Name)
					ps = append(ps, "("+pn+" "+sorts[i]+")")
					n.scope[b.Name] = Val{pn, t}
				}
				body := fc.specEval(n, sf.Body)
				smt.recFuns = append(smt.recFuns, fmt.Sprintf("(define-fun-rec %s (%s) %s %s)", name, strings.Join(ps, " "), smt.sortOf(rt), body.T))
			}
		}
		if len(ats) == 0 {
			return Val{name, rt}
		}
		return Val{"(" + name + " " + strings.Join(ats, " ") + ")", rt}
	}
	n := &SpecEnv{fc: fc, st: env.st, old: env.old, scope: map[string]Val{}, oldScope: map[string]Val{}, pkg: p, inOld: env.inOld, depth: env.depth, useVars: false}
	if recv != nil {
		n.scope[sf.RecvN] = *recv
		n.oldScope[sf.RecvN] = *recv
	}
	for i, b := range sf.Params {
		v := args[i]
		if t := fc.eng.resolveType(p, b.Type); t != nil {
			v.Ty = t
		}
		n.scope[b.Name] = v
		n.oldScope[b.Name] = v
	}
	r := fc.specEval(n, sf.Body)
	r.Ty = rt
	return r
}

// ---------- engine-level lookups ----------

func (eng *Engine) findSpecFn(p *Pkg, key string) *SpecFn {
	if p != nil && p.cf != nil {
		if sf, ok := p.cf.SpecFns[key]; ok {
			return sf
		}
	}
	if eng.prelude != nil {
		if sf, ok := eng.prelude.SpecFns[key]; ok {
			return sf
		}
	}
	// other packages' files (by unique name)
	var names []string
	for path := range eng.pkgs {
		names = append(names, path)
	}
	sort.Strings(names)
	for _, path := range names {
		q := eng.pkgs[path]
		if q.cf != nil {
			if sf, ok := q.cf.SpecFns[key]; ok {
				return sf
			}
		}
	}
	return nil
}

func (eng *Engine) lookupQualified(p *Pkg, pkgName, name string) types.Object {
	if p == nil {
		return nil
	}
	for _, imp := range p.Types.Imports() {
		if imp.Name() == pkgName {
			if o := imp.Scope().Lookup(name); o != nil {
				return o
			}
		}
	}
	if path, ok := p.importAlias[pkgName]; ok {
		for _, imp := range p.Types.Imports() {
			if imp.Path() == path {
				return imp.Scope().Lookup(name)
			}
		}
	}
	return nil
}

func (eng *Engine) ghostField(t types.Type, name string) *GhostField {
	n := namedOf(t)
	if n == nil {
		return nil
	}
	for _, g := range eng.ghosts {
		if g.Name != name {
			continue
		}
		if g.Type == n.Obj().Name() && (n.Obj().Pkg() == nil || g.Pkg == n.Obj().Pkg().Path()) {
			return g
		}
		// ghost field declared on a type of another package: `ghost yamux.Session.closed bool`
		if strings.Contains(g.Type, ".") {
			if gt := eng.resolveType(eng.pkgs[g.Pkg], g.Type); gt != nil {
				if gn := namedOf(gt); gn != nil && gn.Obj() == n.Obj() {
					return g
				}
			}
		}
	}
	return nil
}

func (eng *Engine) resolveGhostType(g *GhostField) types.Type {
	t := eng.resolveType(eng.pkgs[g.Pkg], g.Ty)
	if t == nil {
		return intT
	}
	return t
}

// importedPkg: the loaded package imported under the given name by p
func (eng *Engine) importedPkg(p *Pkg, name string) *Pkg {
	if p == nil {
		return nil
	}
	for _, imp := range p.Types.Imports() {
		if imp.Name() == name {
			return eng.pkgs[imp.Path()]
		}
	}
	if path, ok := p.importAlias[name]; ok {
		return eng.pkgs[path]
	}
	return nil
}

func (eng *Engine) importedPkgs(p *Pkg, name string) []*Pkg {
	var out []*Pkg
	if p == nil {
		return nil
	}
	if path, ok := p.importAlias[name]; ok {
		if q := eng.pkgs[path]; q != nil {
			out = append(out, q)
		}
	}
	for _, imp := range p.Types.Imports() {
		if imp.Name() == name {
			if q := eng.pkgs[imp.Path()]; q != nil {
				out = append(out, q)
			}
		}
	}
	return out
}

// undefinedLocal: a local variable declared somewhere in the function under verification (unique by name) that is
// not live in the given state: an arbitrary value of its type.
func (fc *FnCtx) undefinedLocal(st *State, name string) (Val, bool) {
	r := fc.root()
	if r.decl == nil || r.decl.Body == nil {
		return Val{}, false
	}
	var found []types.Object
	ast.Inspect(r.decl.Body, func(x ast.Node) bool {
		if id, ok := x.(*ast.Ident); ok && id.Name == name {
			if o := r.info.Defs[id]; o != nil {
				if _, isVar := o.(*types.Var); isVar {
					found = append(found, o)
				}
			}
		}
		return true
	})
	if len(found) != 1 {
		return Val{}, false
	}
	return fc.freshVal(st, "undef_"+name, found[0].Type()), true
}

// specArgAs converts a spec argument to a parameter type: a non-interface value passed for an interface parameter
// is boxed exactly as the executable code boxes it.
func (fc *FnCtx) specArgAs(env *SpecEnv, a Val, pt types.Type) Val {
	if a.Ty != nil {
		if _, isIface := pt.Underlying().(*types.Interface); isIface {
			if _, already := a.Ty.Underlying().(*types.Interface); !already {
				if b, ok := a.Ty.(*types.Basic); !ok || b.Kind() != types.UntypedNil {
					return fc.box(env.state(), a, pt)
				}
			}
		}
	}
	a.Ty = pt
	return a
}

package main

// Symbolic execution of statements.

import (
	"fmt"
	"go/ast"
	"go/token"
	"go/types"
	"sort"
	"strings"
)

type okind int

const (
	oNormal okind = iota
	oReturn
	oBreak
	oContinue
	oPanic
)

type Outcome struct {
	kind  okind
	label string
	st    *State
	vals  []Val
	pos   token.Pos // return statement that produced an oReturn outcome
}

func normal(st *State) []Outcome { return []Outcome{{kind: oNormal, st: st}} }

// joinNormal merges all normal outcomes into one when possible
func (fc *FnCtx) joinNormal(outs []Outcome) []Outcome {
	var normals []*State
	var rest []Outcome
	for _, o := range outs {
		if o.kind == oNormal {
			normals = append(normals, o.st)
		} else {
			rest = append(rest, o)
		}
	}
	if len(normals) <= 1 {
		return outs
	}
	if m := fc.mergeStates(normals); m != nil {
		return append([]Outcome{{kind: oNormal, st: m}}, rest...)
	}
	return outs
}

func (fc *FnCtx) execBlock(st *State, list []ast.Stmt) []Outcome {
	cur := []*State{st}
	var done []Outcome
	for _, s := range list {
		var next []Outcome
		for _, c := range cur {
			for _, o := range fc.exec(c, s, "") {
				if o.kind == oNormal {
					next = append(next, o)
				} else {
					done = append(done, o)
				}
			}
		}
		next = fc.joinNormal(next)
		cur = cur[:0]
		for _, o := range next {
			cur = append(cur, o.st)
		}
		if len(cur) == 0 {
			break
		}
		if len(cur) > 64 {
			fc.unsupp(s.Pos(), "more than 64 unmergeable paths")
		}
	}
	for _, c := range cur {
		done = append(done, Outcome{kind: oNormal, st: c})
	}
	return done
}

func (fc *FnCtx) defineVar(st *State, id *ast.Ident, v Val) {
	if id.Name == "_" {
		return
	}
	obj := fc.info.Defs[id]
	if obj == nil {
		obj = fc.info.Uses[id]
	}
	if obj == nil {
		return
	}
	v.Ty = obj.Type()
	if fc.boxed[obj] {
		p := Val{fc.alloc(st, "box_"+id.Name), types.NewPointer(obj.Type())}
		fc.storeDeref(st, p, v)
		st.vars[obj] = p
		return
	}
	st.vars[obj] = v
}

func (fc *FnCtx) assign(st *State, lhs ast.Expr, v Val) {
	switch l := lhs.(type) {
	case *ast.ParenExpr:
		fc.assign(st, l.X, v)
	case *ast.Ident:
		if l.Name == "_" {
			return
		}
		obj := fc.info.Uses[l]
		if obj == nil {
			obj = fc.info.Defs[l]
		}
		if o, ok := obj.(*types.Var); ok {
			v = fc.convertAssign(st, v, o.Type())
			if cur, ok := st.vars[o]; ok {
				if fc.isBoxed(o) {
					fc.storeDeref(st, cur, v)
					return
				}
				st.vars[o] = Val{fc.nameIfBig(st, v.T, fc.smt.sortOf(o.Type()), "v_"+o.Name()), o.Type()}
				return
			}
			if o.Pkg() != nil && o.Parent() == o.Pkg().Scope() {
				key := "G$" + o.Pkg().Name() + "." + o.Name()
				fc.setComp(st, key, fc.smt.sortOf(o.Type()), v.T)
				return
			}
			st.vars[o] = Val{v.T, o.Type()}
			return
		}
		fc.unsupp(l.Pos(), "assignment to %s", l.Name)
	case *ast.SelectorExpr:
		sel, ok := fc.info.Selections[l]
		if !ok || sel.Kind() != types.FieldVal {
			// qualified package variable
			if o, ok := fc.info.Uses[l.Sel].(*types.Var); ok {
				key := "G$" + o.Pkg().Name() + "." + o.Name()
				fc.setComp(st, key, fc.smt.sortOf(o.Type()), v.T)
				return
			}
			fc.unsupp(l.Pos(), "assignment to selector %s", exprText(l))
		}
		v = fc.convertAssign(st, v, sel.Type())
		fc.bumpCall(st, l.Sel.Name) // `counts <field>`: assignments to a field are counted like calls
		if r := fc.root(); r.ct != nil {
			// also for writes made by contract-less callees executed inline (the clause is evaluated over the root's variables)
			if len(r.ct.WritePre[l.Sel.Name]) > 0 {
				fc.hit("writepre " + l.Sel.Name)
			}
			for i, cl := range r.ct.WritePre[l.Sel.Name] {
				env := &SpecEnv{fc: r, st: st, old: r.entry, scope: map[string]Val{"$value": v}, oldScope: r.paramsEntry, pkg: r.ctPkg(), useVars: true}
				g := fc.safeSpec(env, cl.E, cl.Text)
				fc.assertNamed(st, "emit", "write."+l.Sel.Name+"."+clauseName(cl, i), g.T, "whenever field "+l.Sel.Name+" is assigned: "+cl.Text, l.Pos())
			}
		}
		idx := sel.Index()
		base := fc.eval(st, l.X)
		// walk all but the last index
		cur := base
		var chain []Val // struct values along a value-typed path
		var chainIdx []int
		for n, i := range idx {
			_, isPtr := cur.Ty.Underlying().(*types.Pointer)
			if isPtr {
				fc.nilCheck(st, cur, l.X)
			}
			if n == len(idx)-1 {
				if isPtr {
					fc.guardCheckRW(st, cur, i, l, true)
					fc.writeFieldPtr(st, cur, i, v.T)
					if len(chain) > 0 {
						fc.unsupp(l.Pos(), "mixed pointer/value field path")
					}
					return
				}
				// value path: rebuild outward
				nv := fc.updateStructVal(cur, i, v.T)
				for k := len(chain) - 1; k >= 0; k-- {
					nv = fc.updateStructVal(chain[k], chainIdx[k], nv.T)
				}
				if len(chain) > 0 {
					_ = chain
				}
				fc.assignRoot(st, l.X, idx[:n], nv, chain)
				return
			}
			if !isPtr {
				chain = append(chain, cur)
				chainIdx = append(chainIdx, i)
			} else {
				chain, chainIdx = nil, nil
			}
			cur = fc.readField(st, cur, i)
		}
	case *ast.IndexExpr:
		xt := fc.typeOf(l.X)
		switch u := xt.Underlying().(type) {
		case *types.Slice:
			s := fc.eval(st, l.X)
			i := fc.eval(st, l.Index)
			g := fmt.Sprintf("(and (<= 0 %s) (< %s (s_len %s)))", i.T, i.T, s.T)
			fc.assert(st, "bounds", exprText(l), l.Pos(), g, "slice index in range (store)")
			st.assume(g)
			v = fc.convertAssign(st, v, u.Elem())
			fc.sliceStore(st, s, i.T, u.Elem(), v.T)
		case *types.Map:
			m := fc.eval(st, l.X)
			k := fc.eval(st, l.Index)
			fc.assert(st, "nilmap", exprText(l), l.Pos(), not(eq(m.T, "0")), "write to nil map")
			st.assume(not(eq(m.T, "0")))
			v = fc.convertAssign(st, v, u.Elem())
			fc.ownershipCheck(st, l, m, k, "store")
			if r := fc.root(); r.ct != nil && len(r.ct.StorePre) > 0 {
				// the map is named by the field that holds it, or - for a local map of the function itself - by the variable
				mapName := ""
				if se, ok := ast.Unparen(l.X).(*ast.SelectorExpr); ok {
					mapName = se.Sel.Name
				} else if id, ok := ast.Unparen(l.X).(*ast.Ident); ok && r == fc {
					mapName = id.Name
				}
				if mapName != "" && len(r.ct.StorePre[mapName]) > 0 {
					fc.hit("storepre " + mapName)
					dk, ds, _, _ := fc.mapKeys(u)
					present := Val{sel(sel(fc.comp(st, dk, ds), m.T), k.T), types.Typ[types.Bool]}
					for i, cl := range r.ct.StorePre[mapName] {
						env := &SpecEnv{fc: r, st: st, old: r.entry, scope: map[string]Val{"$key": k, "$map": m, "$present": present, "$value": v}, oldScope: r.paramsEntry, pkg: r.ctPkg(), useVars: true}
						g := r.safeSpec(env, cl.E, cl.Text)
						fc.assertNamed(st, "own", "store."+mapName+"."+clauseName(cl, i), g.T, "whenever an entry of "+mapName+" is stored: "+cl.Text, l.Pos())
					}
				}
			}
			fc.mapStore(st, m, k, v.T)
		case *types.Array:
			a := fc.eval(st, l.X)
			i := fc.eval(st, l.Index)
			fc.assign(st, l.X, Val{sto(a.T, i.T, v.T), xt})
		default:
			fc.unsupp(l.Pos(), "index assignment on %s", xt)
		}
	case *ast.StarExpr:
		p := fc.eval(st, l.X)
		fc.nilCheck(st, p, l.X)
		fc.storeDeref(st, p, v)
	default:
		fc.unsupp(lhs.Pos(), "assignment target %T", lhs)
	}
}

// assignRoot writes back a rebuilt struct value: x (value-typed path from a variable or pointer field)
func (fc *FnCtx) assignRoot(st *State, x ast.Expr, idx []int, nv Val, chain []Val) {
	if len(chain) == 0 {
		// direct: x itself is the struct value being replaced
		fc.assign(st, x, nv)
		return
	}
	// the chain started at some pointer or variable; simplest sound treatment: x is `a.b` where a.b is value typed.
	// Re-dispatch on the syntactic form.
	switch xe := x.(type) {
	case *ast.Ident, *ast.IndexExpr, *ast.StarExpr:
		fc.assign(st, xe, nv)
	case *ast.SelectorExpr:
		fc.assign(st, xe, nv)
	default:
		fc.unsupp(x.Pos(), "nested value-field assignment")
	}
}

func (fc *FnCtx) ownershipCheck(st *State, e ast.Expr, m Val, k Val, op string) {}

func (fc *FnCtx) exec(st *State, s ast.Stmt, label string) []Outcome {
	switch s := s.(type) {
	case *ast.BlockStmt:
		return fc.execBlock(st, s.List)
	case *ast.EmptyStmt:
		return normal(st)
	case *ast.ExprStmt:
		if ue, ok := s.X.(*ast.UnaryExpr); ok && ue.Op == token.ARROW {
			ch := fc.eval(st, ue.X)
			fc.chanRecv(st, ch, ue)
			return normal(st)
		}
		if call, ok := s.X.(*ast.CallExpr); ok {
			return fc.execCallStmt(st, call)
		}
		fc.eval(st, s.X)
		return normal(st)
	case *ast.DeclStmt:
		gd, ok := s.Decl.(*ast.GenDecl)
		if !ok || gd.Tok != token.VAR {
			return normal(st) // const / type declarations
		}
		for _, sp := range gd.Specs {
			vs := sp.(*ast.ValueSpec)
			if len(vs.Values) == 0 {
				for _, n := range vs.Names {
					obj := fc.info.Defs[n]
					if obj != nil {
						fc.defineVar(st, n, Val{fc.smt.zero(obj.Type()), obj.Type()})
					}
				}
			} else if len(vs.Values) == len(vs.Names) {
				for i, n := range vs.Names {
					v := fc.eval(st, vs.Values[i])
					if obj := fc.info.Defs[n]; obj != nil {
						v = fc.convertAssign(st, v, obj.Type())
					}
					fc.defineVar(st, n, v)
				}
			} else {
				vals := fc.evalMulti(st, vs.Values[0], len(vs.Names))
				for i, n := range vs.Names {
					fc.defineVar(st, n, vals[i])
				}
			}
		}
		return normal(st)
	case *ast.IncDecStmt:
		v := fc.eval(st, s.X)
		op := "+"
		if s.Tok == token.DEC {
			op = "-"
		}
		r := Val{"(" + op + " " + v.T + " 1)", v.Ty}
		r = fc.overflowCheck(st, r, s.X)
		fc.assign(st, s.X, r)
		return normal(st)
	case *ast.AssignStmt:
		return fc.execAssign(st, s)
	case *ast.IfStmt:
		if s.Init != nil {
			outs := fc.exec(st, s.Init, "")
			if len(outs) != 1 || outs[0].kind != oNormal {
				fc.unsupp(s.Pos(), "if-init with control flow")
			}
			st = outs[0].st
		}
		c := fc.eval(st, s.Cond)
		var outs []Outcome
		t := st.clone()
		t.assume(c.T)
		fc.branchCanary(t, s.Body.Pos(), "then")
		outs = append(outs, fc.execBlock(t, s.Body.List)...)
		f := st.clone()
		f.assume(not(c.T))
		if s.Else != nil {
			fc.branchCanary(f, s.Else.Pos(), "else")
			outs = append(outs, fc.exec(f, s.Else, "")...)
		} else {
			outs = append(outs, Outcome{kind: oNormal, st: f})
		}
		if containsLoop(s) {
			// keep the paths through different loops apart: their path formulas stay small
			for i := range outs {
				fc.root().nbarrier++
				outs[i].st.barrier = fc.root().nbarrier
			}
			return outs
		}
		return fc.joinNormal(outs)
	case *ast.ReturnStmt:
		var vals []Val
		if len(s.Results) == 0 {
			for _, r := range fc.results {
				if v, ok := st.vars[r]; ok {
					vals = append(vals, v)
				} else {
					vals = append(vals, Val{fc.smt.zero(r.Type()), r.Type()})
				}
			}
		} else if len(s.Results) == 1 && len(fc.results) > 1 {
			vals = fc.evalMulti(st, s.Results[0], len(fc.results))
		} else {
			for i, r := range s.Results {
				v := fc.eval(st, r)
				if i < len(fc.results) {
					v = fc.convertAssign(st, v, fc.results[i].Type())
				}
				vals = append(vals, v)
			}
		}
		return []Outcome{{kind: oReturn, st: st, vals: vals, pos: s.Pos()}}
	case *ast.BranchStmt:
		lbl := ""
		if s.Label != nil {
			lbl = s.Label.Name
		}
		switch s.Tok {
		case token.BREAK:
			return []Outcome{{kind: oBreak, st: st, label: lbl}}
		case token.CONTINUE:
			return []Outcome{{kind: oContinue, st: st, label: lbl}}
		}
		fc.unsupp(s.Pos(), "branch statement %s", s.Tok)
	case *ast.LabeledStmt:
		return fc.exec(st, s.Stmt, s.Label.Name)
	case *ast.ForStmt:
		fc.inLoop++
		defer func() { fc.inLoop-- }()
		return fc.execFor(st, s, label)
	case *ast.RangeStmt:
		fc.inLoop++
		defer func() { fc.inLoop-- }()
		return fc.execRange(st, s, label)
	case *ast.SwitchStmt:
		return fc.execSwitch(st, s, label)
	case *ast.TypeSwitchStmt:
		return fc.execTypeSwitch(st, s, label)
	case *ast.SelectStmt:
		return fc.execSelect(st, s, label)
	case *ast.DeferStmt:
		fc.pushDefer(st, s.Call)
		return normal(st)
	case *ast.GoStmt:
		// A spawned function literal that has its own contract Outer$N is verified separately; its requires clauses are
		// proof obligations here, at the spawn site. With `checkgo` in the enclosing contract, any other spawned call is
		// executed on a forked state so that the obligations inside it (callee preconditions, callpre clauses) are
		// generated in the spawn-time context; its effects are not carried over (interleaving is not modelled).
		fc.root().spawned = true
		if lit, ok := s.Call.Fun.(*ast.FuncLit); ok && fc.pkg.cf != nil {
			if ct := fc.pkg.cf.Contracts[fc.closureKey(lit)]; ct != nil && len(ct.Requires) > 0 {
				env := &SpecEnv{fc: fc, st: st, old: st, scope: map[string]Val{}, oldScope: map[string]Val{}, pkg: fc.pkg, useVars: true}
				for i, rq := range ct.Requires {
					v := fc.safeSpec(env, rq.E, rq.Text)
					fc.assertNamed(st, "spawn", fmt.Sprintf("%s.%s", ct.Key, clauseName(rq, i)), v.T, "precondition of spawned "+ct.Key+": "+rq.Text, s.Pos())
				}
				return normal(st)
			}
		}
		if r := fc.root(); r.ct != nil && r.ct.CheckGo {
			st2 := st.clone()
			fc.evalCall(st2, s.Call)
			return normal(st)
		}
		fc.warn("go statement: spawned function is not part of this proof (%s)", trunc(exprText(s.Call.Fun), 40))
		return normal(st)
	case *ast.SendStmt:
		ch := fc.eval(st, s.Chan)
		v := fc.eval(st, s.Value)
		return fc.chanSend(st, ch, v, s)
	}
	fc.unsupp(s.Pos(), "statement %T", s)
	return nil
}

func (fc *FnCtx) execAssign(st *State, s *ast.AssignStmt) []Outcome {
	if s.Tok != token.ASSIGN && s.Tok != token.DEFINE {
		// op=
		op := map[token.Token]token.Token{token.ADD_ASSIGN: token.ADD, token.SUB_ASSIGN: token.SUB, token.MUL_ASSIGN: token.MUL,
			token.QUO_ASSIGN: token.QUO, token.REM_ASSIGN: token.REM, token.OR_ASSIGN: token.OR, token.AND_ASSIGN: token.AND,
			token.SHL_ASSIGN: token.SHL, token.SHR_ASSIGN: token.SHR, token.XOR_ASSIGN: token.XOR}[s.Tok]
		be := &ast.BinaryExpr{X: s.Lhs[0], Op: op, Y: s.Rhs[0], OpPos: s.TokPos}
		// type info for the synthetic node
		fc.info.Types[be] = types.TypeAndValue{Type: fc.typeOf(s.Lhs[0])}
		v := fc.evalBinary(st, be)
		fc.assign(st, s.Lhs[0], v)
		return normal(st)
	}
	var vals []Val
	if len(s.Rhs) == 1 && len(s.Lhs) > 1 {
		vals = fc.evalMulti(st, s.Rhs[0], len(s.Lhs))
	} else {
		for _, r := range s.Rhs {
			vals = append(vals, fc.eval(st, r))
		}
	}
	for i, l := range s.Lhs {
		if s.Tok == token.DEFINE {
			if id, ok := l.(*ast.Ident); ok {
				if obj := fc.info.Defs[id]; obj != nil {
					fc.defineVar(st, id, fc.convertAssign(st, vals[i], obj.Type()))
					continue
				}
			}
		}
		fc.assign(st, l, vals[i])
	}
	return normal(st)
}

// evalMulti evaluates an expression that yields n values (call, comma-ok forms)
func (fc *FnCtx) evalMulti(st *State, e ast.Expr, n int) []Val {
	switch e := e.(type) {
	case *ast.ParenExpr:
		return fc.evalMulti(st, e.X, n)
	case *ast.CallExpr:
		vs := fc.evalCall(st, e)
		if len(vs) != n {
			fc.unsupp(e.Pos(), "call yields %d values, %d wanted", len(vs), n)
		}
		return vs
	case *ast.IndexExpr: // v, ok := m[k]
		m := fc.eval(st, e.X)
		k := fc.eval(st, e.Index)
		v, dom := fc.mapLookup(st, m, k)
		return []Val{v, {dom, boolT}}
	case *ast.TypeAssertExpr:
		x := fc.eval(st, e.X)
		tt := fc.typeOf(e.Type)
		ok := fc.typeTest(st, x, tt)
		v := fc.unbox(st, x, tt)
		return []Val{{ite(ok, v.T, fc.smt.zero(tt)), tt}, {ok, boolT}}
	case *ast.UnaryExpr:
		if e.Op == token.ARROW {
			ch := fc.eval(st, e.X)
			v, ok := fc.chanRecv(st, ch, e)
			return []Val{v, ok}
		}
	}
	fc.unsupp(e.Pos(), "multi-value expression %T", e)
	return nil
}

// ---------- loops ----------

type modSet struct {
	vars   map[types.Object]bool
	comps  map[string][]ast.Expr // heap key -> base expressions (nil entry = unknown base => whole component)
	fresh  map[string]bool       // component is also written at freshly allocated references (append / make inside the loop)
	all    bool
}

func (fc *FnCtx) loopCtl(outs []Outcome, label string) (cont, brk []*State, rest []Outcome) {
	for _, o := range outs {
		switch {
		case o.kind == oNormal:
			cont = append(cont, o.st)
		case o.kind == oContinue && (o.label == "" || o.label == label):
			cont = append(cont, o.st)
		case o.kind == oBreak && (o.label == "" || o.label == label):
			brk = append(brk, o.st)
		default:
			rest = append(rest, o)
		}
	}
	return
}

func (fc *FnCtx) loopNumber(s ast.Stmt) int { return fc.loopOrd[s] }

func (fc *FnCtx) invEnv(st *State, extra map[string]Val) *SpecEnv {
	r := fc.root()
	env := &SpecEnv{fc: fc, st: st, old: r.entry, scope: map[string]Val{}, oldScope: map[string]Val{}, pkg: fc.ctPkg(), useVars: true, loopEntry: fc.loopEntries[fc.curLoop]}
	for k, v := range fc.paramsEntry {
		env.oldScope[k] = v
	}
	for k, v := range extra {
		env.scope[k] = v
	}
	return env
}

func (fc *FnCtx) ctPkg() *Pkg {
	if fc.ct != nil {
		if p := fc.eng.pkgs[fc.ct.Pkg]; p != nil {
			return p
		}
	}
	return fc.pkg
}

func (fc *FnCtx) checkInvs(st *State, n int, tag string, extra map[string]Val, pos token.Pos) {
	if fc.loopEntries == nil {
		fc.loopEntries = map[int]*State{}
	}
	if tag == "init" {
		fc.loopEntries[n] = st.clone()
	}
	fc.curLoop = n
	if tag == "preserve" && fc.freshRows != nil {
		keys := []string{}
		for k := range fc.freshRows[n] {
			keys = append(keys, k)
		}
		sort.Strings(keys)
		for _, k := range keys {
			head := fc.freshRows[n][k]
			cur := st.heap[k]
			if cur == "" || cur == head {
				continue
			}
			fc.smt.nfresh++
			q := fmt.Sprintf("r!q%d", fc.smt.nfresh)
			top := fc.loopEntries[n].top
			goal := fmt.Sprintf("(forall ((%s Int)) (! (=> (<= %s %s) (= (select %s %s) (select %s %s))) :pattern ((select %s %s))))", q, q, top, cur, q, fc.heapAtHead(n, k, head), q, cur, q)
			fc.assertNamed(st, "loopframe", fmt.Sprintf("loop%d.fresh-rows.%s", n, k), goal, "the loop writes slice elements only in arrays allocated inside the loop ("+k+")", pos)
		}
	}
	if tag == "init" {
		r := fc.root()
		r.canaries = append(r.canaries, &Obligation{Name: fmt.Sprintf("%s#vacuity:loop%d.entry", r.key, n), Kind: "vacuity", Goal: "false", PC: append([]string(nil), st.pc...), Vacuity: true})
	}
	if tag == "preserve" {
		r := fc.root()
		r.canaries = append(r.canaries, &Obligation{Name: fmt.Sprintf("%s#vacuity:loop%d.body", r.key, n), Kind: "vacuity", Goal: "false", PC: append([]string(nil), st.pc...), Vacuity: true})
	}
	fc.checkFrame(st, fmt.Sprintf("loop%d.%s.", n, tag), pos)
	if fc.ct == nil {
		return
	}
	for i, inv := range fc.ct.LoopInv[n] {
		v := fc.safeSpec(fc.invEnv(st, extra), inv.E, inv.Text)
		name := inv.Label
		if name == "" {
			name = fmt.Sprintf("%d", i+1)
		}
		fc.assertNamed(st, "inv", fmt.Sprintf("loop%d.%s.%s", n, name, tag), v.T, "loop invariant "+tag+": "+inv.Text, pos)
	}
}

func (fc *FnCtx) assumeInvs(st *State, n int, extra map[string]Val) {
	fc.curLoop = n
	// the body is about to be executed for an arbitrary iteration: remember where its allocations start
	for ls, k := range fc.loopOrd {
		if k == n {
			r := fc.root()
			r.iterMarks = append(r.iterMarks, iterMark{ls.Pos(), ls.End(), st.top})
		}
	}
	fc.assumeFrame(st)
	if fc.ct == nil {
		return
	}
	for _, inv := range fc.ct.LoopInv[n] {
		v := fc.safeSpec(fc.invEnv(st, extra), inv.E, inv.Text)
		st.assume(v.T)
	}
}

func (fc *FnCtx) safeSpec(env *SpecEnv, e SExpr, txt string) (v Val) {
	defer func() {
		if r := recover(); r != nil {
			if se, ok := r.(specErr); ok {
				panic(unsupportedErr{"contract does not resolve: " + se.msg + " in `" + txt + "`"})
			}
			panic(r)
		}
	}()
	return fc.specEval(env, e)
}

func (fc *FnCtx) decreases(st *State, n int, extra map[string]Val) (Val, bool) {
	if fc.ct == nil {
		return Val{}, false
	}
	fc.curLoop = n
	d, ok := fc.ct.LoopDec[n]
	if !ok {
		return Val{}, false
	}
	return fc.safeSpec(fc.invEnv(st, extra), d.E, d.Text), true
}

// havocLoop havocs everything the loop body may modify
// loopFreshOnly: `loop N modifies fresh` -- slice-element writes of this loop go only to arrays allocated inside
// the loop (checked at the end of the body), so every row that exists at loop entry is unchanged.
func (fc *FnCtx) loopFreshOnly(n int) map[string]bool {
	if fc.ct == nil {
		return nil
	}
	out := map[string]bool{}
	for _, m := range fc.ct.LoopMod[n] {
		m = strings.TrimSpace(m)
		if strings.HasPrefix(m, "fresh ") {
			t := fc.eng.resolveType(fc.ctPkg(), strings.TrimSpace(m[6:]))
			if sl, ok := t.(*types.Slice); ok {
				k, _ := fc.elemsKey(sl.Elem())
				out[k] = true
			} else {
				panic(unsupportedErr{"loop modifies fresh: not a slice type: " + m})
			}
		}
	}
	return out
}

func (fc *FnCtx) havocLoop(st *State, body ast.Node, extraVars []types.Object) {
	ms := fc.modSetOf(body)
	// the ghost counters of channel operations are loop-carried when the body sends / receives
	hasSend, hasRecv := false, false
	ast.Inspect(body, func(x ast.Node) bool {
		switch x := x.(type) {
		case *ast.SendStmt:
			hasSend = true
		case *ast.UnaryExpr:
			if x.Op == token.ARROW {
				hasRecv = true
			}
		case *ast.RangeStmt:
			if _, ok := fc.typeOf(x.X).Underlying().(*types.Chan); ok {
				hasRecv = true
			}
		case *ast.CallExpr:
			// contract-less callees of the same package are inlined and may send / receive as well
			if g, ok := fc.calleeOf(x).(*types.Func); ok && g.Pkg() == fc.pkg.Types && fc.eng.contractFor(g, fc.pkg) == nil {
				hasSend, hasRecv = true, true
			}
		}
		return true
	})
	if r := fc.root(); r.ct != nil && len(r.ct.Counts) > 0 {
		called := map[string]bool{}
		ast.Inspect(body, func(x ast.Node) bool {
			if c, ok := x.(*ast.CallExpr); ok {
				if g, ok := fc.calleeOf(c).(*types.Func); ok {
					called[g.Name()] = true
				} else {
					called[exprText(c.Fun)] = true
				}
			}
			if as, ok := x.(*ast.AssignStmt); ok {
				for _, l := range as.Lhs {
					if se, ok := ast.Unparen(l).(*ast.SelectorExpr); ok {
						called[se.Sel.Name] = true
					}
				}
			}
			return true
		})
		for _, n := range r.ct.Counts {
			if called[n] {
				c := fc.smt.fresh("calls", "Int")
				cur := "0"
				if st.calls != nil && st.calls[n] != "" {
					cur = st.calls[n]
				}
				st.assume("(>= " + c + " " + cur + ")")
				if st.calls == nil {
					st.calls = map[string]string{}
				}
				st.calls[n] = c
			}
		}
	}
	if hasSend {
		c := fc.smt.fresh("sends", "Int")
		if st.sends != "" {
			st.assume("(>= " + c + " " + st.sends + ")")
		} else {
			st.assume("(>= " + c + " 0)")
		}
		st.sends = c
	}
	if hasRecv {
		c := fc.smt.fresh("recvs", "Int")
		if st.recvs != "" {
			st.assume("(>= " + c + " " + st.recvs + ")")
		} else {
			st.assume("(>= " + c + " 0)")
		}
		st.recvs = c
	}
	if n := fc.havocFor; n > 0 && len(fc.loopFreshOnly(n)) > 0 {
		only := fc.loopFreshOnly(n)
		if fc.freshRows == nil {
			fc.freshRows = map[int]map[string]string{}
		}
		fc.freshRows[n] = map[string]string{}
		for k := range ms.comps {
			if only[k] {
				ms.comps[k] = []ast.Expr{}
				ms.fresh[k] = true
				if srt, ok := fc.smt.heapSort[k]; ok {
					fc.freshRows[n][k] = fc.comp(st, k, srt)
				}
			}
		}
		fc.freshTop = st.top
	}
	for _, o := range extraVars {
		ms.vars[o] = true
	}
	// evaluate localized bases before havocking variables
	type loc struct {
		key   string
		refs  []string
		fresh bool
	}
	var locs []loc
	if !ms.all {
		var keys []string
		for k := range ms.comps {
			keys = append(keys, k)
		}
		sort.Strings(keys)
		for _, k := range keys {
			l := loc{key: k, fresh: ms.fresh[k]}
			whole := false
			for _, b := range ms.comps[k] {
				if b == nil {
					whole = true
					break
				}
				id, ok := b.(*ast.Ident)
				if !ok {
					whole = true
					break
				}
				obj := fc.info.Uses[id]
				if obj == nil || fc.isBoxed(obj) || (ms.vars[obj] && !l.fresh) {
					whole = true
					break
				}
				v, ok := st.vars[obj]
				if !ok {
					whole = true
					break
				}
				t := v.T
				if _, isSl := v.Ty.Underlying().(*types.Slice); isSl {
					t = "(s_base " + v.T + ")"
				}
				l.refs = append(l.refs, t)
			}
			if whole {
				l.refs = nil
			} else if l.refs == nil {
				l.refs = []string{}
			}
			locs = append(locs, l)
		}
	}
	var objs []types.Object
	for o := range ms.vars {
		objs = append(objs, o)
	}
	sort.Slice(objs, func(i, j int) bool { return objs[i].Pos() < objs[j].Pos() })
	for _, o := range objs {
		if v, ok := st.vars[o]; ok {
			if fc.isBoxed(o) {
				continue // contents live in the heap
			}
			st.vars[o] = fc.freshVal(st, o.Name(), v.Ty)
		}
	}
	if ms.all {
		fc.havocAll(st)
		return
	}
	for _, l := range locs {
		srt, ok := fc.smt.heapSort[l.key]
		if !ok {
			continue
		}
		if l.refs == nil {
			st.heap[l.key] = fc.smt.fresh("Hl_"+l.key, srt)
			continue
		}
		cur := fc.comp(st, l.key, srt)
		if l.fresh {
			// written only at the listed references (values at loop entry) and at references allocated inside
			// the loop: everything else that exists at loop entry is unchanged
			nh := fc.smt.fresh("Hf_"+l.key, srt)
			fc.smt.nfresh++
			q := fmt.Sprintf("r!q%d", fc.smt.nfresh)
			conds := []string{"(<= " + q + " " + st.top + ")"}
			seenR := map[string]bool{}
			for _, r := range l.refs {
				if !seenR[r] {
					seenR[r] = true
					conds = append(conds, not(eq(q, r)))
				}
			}
			st.assume(fmt.Sprintf("(forall ((%s Int)) (! (=> %s (= (select %s %s) (select %s %s))) :pattern ((select %s %s))))", q, and(conds...), nh, q, cur, q, nh, q))
			st.heap[l.key] = nh
			continue
		}
		// element sort of the outer array
		inner := srt[len("(Array Int ") : len(srt)-1]
		seen := map[string]bool{}
		for _, r := range l.refs {
			if seen[r] {
				continue
			}
			seen[r] = true
			cur = sto(cur, r, fc.smt.fresh("Hr_"+l.key, inner))
		}
		st.heap[l.key] = cur
	}
	// allocation may have happened
	nt := fc.smt.fresh("top", "Int")
	st.assume("(>= " + nt + " " + st.top + ")")
	st.top = nt
	if n := fc.havocFor; n > 0 && fc.freshRows != nil && fc.freshRows[n] != nil {
		if fc.headHeap == nil {
			fc.headHeap = map[int]map[string]string{}
		}
		fc.headHeap[n] = map[string]string{}
		for k := range fc.freshRows[n] {
			fc.headHeap[n][k] = st.heap[k]
		}
	}
}

func (fc *FnCtx) havocAll(st *State) {
	var keys []string
	for k := range fc.smt.heapSort {
		keys = append(keys, k)
	}
	sort.Strings(keys)
	for _, k := range keys {
		if strings.Contains(k, ".ghost_") {
			continue // ghost state changes only through contracts that name it
		}
		st.heap[k] = fc.smt.fresh("Ha_"+k, fc.smt.heapSort[k])
	}
	nt := fc.smt.fresh("top", "Int")
	st.assume("(>= " + nt + " " + st.top + ")")
	st.top = nt
	st.known = map[string]bool{}
}

func (fc *FnCtx) execFor(st *State, s *ast.ForStmt, label string) []Outcome {
	n := fc.loopNumber(s)
	if s.Init != nil {
		outs := fc.exec(st, s.Init, "")
		st = outs[0].st
	}
	fc.checkInvs(st, n, "init", nil, s.Pos())
	h := st.clone()
	var loopNodes ast.Node = s.Body
	fc.havocFor = n
	fc.havocLoop(h, &ast.BlockStmt{List: stmtsOf(s.Body, s.Post)}, nil)
	_ = loopNodes
	fc.assumeInvs(h, n, nil)
	h.latchSeen = false // wakeup clause: every iteration has to consult the latch itself before it may sleep
	var rest []Outcome
	cond := "true"
	if s.Cond != nil {
		cond = fc.eval(h, s.Cond).T
	}
	body := h.clone()
	body.assume(cond)
	var dec0 Val
	hasDec := false
	if d, ok := fc.decreases(body, n, nil); ok {
		dec0, hasDec = d, true
		fc.assertNamed(body, "dec", fmt.Sprintf("loop%d.bounded", n), "(>= "+d.T+" 0)", "loop variant is non-negative", s.Pos())
	}
	outs := fc.execBlock(body, s.Body.List)
	cont, brk, r := fc.loopCtl(outs, label)
	rest = append(rest, r...)
	for _, c := range cont {
		if s.Post != nil {
			po := fc.exec(c, s.Post, "")
			c = po[0].st
		}
		fc.checkInvs(c, n, "preserve", nil, s.Pos())
		if hasDec {
			d, _ := fc.decreases(c, n, nil)
			fc.assertNamed(c, "dec", fmt.Sprintf("loop%d.decreases", n), "(< "+d.T+" "+dec0.T+")", "loop variant strictly decreases", s.Pos())
		}
	}
	exit := h.clone()
	exit.assume(not(cond))
	exits := []*State{}
	if s.Cond != nil {
		exits = append(exits, exit)
	}
	exits = append(exits, brk...)
	var outsF []Outcome
	if m := fc.mergeStates(exits); m != nil {
		outsF = append(outsF, Outcome{kind: oNormal, st: m})
	} else {
		for _, e := range exits {
			outsF = append(outsF, Outcome{kind: oNormal, st: e})
		}
	}
	return append(outsF, rest...)
}

func stmtsOf(b *ast.BlockStmt, post ast.Stmt) []ast.Stmt {
	l := append([]ast.Stmt(nil), b.List...)
	if post != nil {
		l = append(l, post)
	}
	return l
}

func (fc *FnCtx) execRange(st *State, s *ast.RangeStmt, label string) []Outcome {
	n := fc.loopNumber(s)
	xt := fc.typeOf(s.X)
	var keyObj, valObj types.Object
	if id, ok := s.Key.(*ast.Ident); ok && id.Name != "_" {
		keyObj = fc.info.Defs[id]
		if keyObj == nil {
			keyObj = fc.info.Uses[id]
		}
	}
	if id, ok := s.Value.(*ast.Ident); ok && id.Name != "_" {
		valObj = fc.info.Defs[id]
		if valObj == nil {
			valObj = fc.info.Uses[id]
		}
	}
	setVar := func(stt *State, o types.Object, v Val) {
		if o == nil {
			return
		}
		v.Ty = o.Type()
		if fc.boxed[o] {
			p := Val{fc.alloc(stt, "box_"+o.Name()), types.NewPointer(o.Type())}
			fc.storeDeref(stt, p, v)
			stt.vars[o] = p
			return
		}
		stt.vars[o] = v
	}
	finish := func(h *State, cond string, bodyInit func(b *State) map[string]Val, step func(c *State, extra map[string]Val) map[string]Val, exitAssume func(e *State)) []Outcome {
		body := h.clone()
		body.assume(cond)
		extra := bodyInit(body)
		var dec0 Val
		hasDec := false
		if d, ok := fc.decreases(body, n, extra); ok {
			dec0, hasDec = d, true
			fc.assertNamed(body, "dec", fmt.Sprintf("loop%d.bounded", n), "(>= "+d.T+" 0)", "loop variant is non-negative", s.Pos())
		}
		outs := fc.execBlock(body, s.Body.List)
		cont, brk, rest := fc.loopCtl(outs, label)
		for _, c := range cont {
			ex2 := step(c, extra)
			fc.checkInvs(c, n, "preserve", ex2, s.Pos())
			if hasDec {
				d, _ := fc.decreases(c, n, ex2)
				fc.assertNamed(c, "dec", fmt.Sprintf("loop%d.decreases", n), "(< "+d.T+" "+dec0.T+")", "loop variant strictly decreases", s.Pos())
			}
		}
		exit := h.clone()
		exit.assume(not(cond))
		exitAssume(exit)
		exits := append([]*State{exit}, brk...)
		var outsF []Outcome
		if m := fc.mergeStates(exits); m != nil {
			outsF = append(outsF, Outcome{kind: oNormal, st: m})
		} else {
			for _, e := range exits {
				outsF = append(outsF, Outcome{kind: oNormal, st: e})
			}
		}
		return append(outsF, rest...)
	}

	switch u := xt.Underlying().(type) {
	case *types.Slice:
		sv := fc.eval(st, s.X)
		ln := "(s_len " + sv.T + ")"
		fc.checkInvs(st, n, "init", map[string]Val{"$i": {"0", intT}, "$len": {ln, intT}}, s.Pos())
		h := st.clone()
		fc.havocFor = n
		fc.havocLoop(h, s.Body, nil)
		i := fc.smt.fresh("ri", "Int")
		h.assume(fmt.Sprintf("(and (<= 0 %s) (<= %s %s))", i, i, ln))
		fc.assumeInvs(h, n, map[string]Val{"$i": {i, intT}, "$len": {ln, intT}})
		return finish(h, "(< "+i+" "+ln+")",
			func(b *State) map[string]Val {
				setVar(b, keyObj, Val{i, intT})
				if valObj != nil {
					setVar(b, valObj, fc.sliceElem(b, sv, i, u.Elem()))
				}
				return map[string]Val{"$i": {i, intT}, "$len": {ln, intT}}
			},
			func(c *State, extra map[string]Val) map[string]Val {
				return map[string]Val{"$i": {"(+ " + i + " 1)", intT}, "$len": {ln, intT}}
			},
			func(e *State) {})
	case *types.Basic:
		if u.Info()&types.IsInteger != 0 { // for i := range n
			nv := fc.eval(st, s.X)
			fc.checkInvs(st, n, "init", map[string]Val{"$i": {"0", intT}}, s.Pos())
			h := st.clone()
			fc.havocFor = n
		fc.havocLoop(h, s.Body, nil)
			i := fc.smt.fresh("ri", "Int")
			h.assume(fmt.Sprintf("(and (<= 0 %s) (or (<= %s %s) (= %s 0)))", i, i, nv.T, i))
			fc.assumeInvs(h, n, map[string]Val{"$i": {i, intT}})
			return finish(h, "(< "+i+" "+nv.T+")",
				func(b *State) map[string]Val {
					setVar(b, keyObj, Val{i, intT})
					return map[string]Val{"$i": {i, intT}}
				},
				func(c *State, extra map[string]Val) map[string]Val {
					return map[string]Val{"$i": {"(+ " + i + " 1)", intT}}
				},
				func(e *State) {})
		}
	case *types.Map:
		m := fc.eval(st, s.X)
		dk, ds, vk, vs := fc.mapKeys(u)
		ks := fc.smt.sortOf(u.Key())
		setSort := "(Array " + ks + " Bool)"
		emptySet := "((as const " + setSort + ") false)"
		lenT := func(stt *State) string { return sel(fc.comp(stt, mapLenKey, mapLenSort), m.T) }
		fc.checkInvs(st, n, "init", map[string]Val{"$seen": {emptySet, nil}, "$n": {"0", intT}}, s.Pos())
		// the ranged map must not be modified by the body
		ms := fc.modSetOf(s.Body)
		if ms.all {
			fc.unsupp(s.Pos(), "range over map with an unmodelled call in the body")
		}
		h := st.clone()
		dom0 := sel(fc.comp(h, dk, ds), m.T)
		val0 := sel(fc.comp(h, vk, vs), m.T)
		len0 := lenT(h)
		fc.havocFor = n
		fc.havocLoop(h, s.Body, nil)
		// domain of the ranged map is unchanged by the body (checked after each iteration)
		seen := fc.smt.fresh("seen", setSort)
		cnt := fc.smt.fresh("rn", "Int")
		h.assume(fmt.Sprintf("(and (<= 0 %s) (<= %s %s))", cnt, cnt, len0))
		h.assume(eq(sel(fc.comp(h, dk, ds), m.T), dom0))
		h.assume(eq(sel(fc.comp(h, vk, vs), m.T), val0))
		h.assume(eq(lenT(h), len0))
		fc.smt.nfresh++
		q := fmt.Sprintf("k!q%d", fc.smt.nfresh)
		h.assume(fmt.Sprintf("(forall ((%s %s)) (=> (select %s %s) (select %s %s)))", q, ks, seen, q, dom0, q))
		h.assume(fmt.Sprintf("(=> (= %s 0) (= %s %s))", cnt, seen, emptySet))
		h.assume(fmt.Sprintf("(=> (= %s %s) (forall ((%s %s)) (=> (select %s %s) (select %s %s))))", cnt, len0, q, ks, dom0, q, seen, q))
		h.assume(fmt.Sprintf("(=> (= %s 0) (= %s 0))", m.T, len0))
		extraH := map[string]Val{"$seen": {seen, nil}, "$n": {cnt, intT}}
		fc.assumeInvs(h, n, extraH)
		var kk string
		return finish(h, "(< "+cnt+" "+len0+")",
			func(b *State) map[string]Val {
				kv := fc.freshVal(b, "rk", u.Key())
				kk = kv.T
				b.assume(and(sel(dom0, kk), not(sel(seen, kk))))
				setVar(b, keyObj, kv)
				if valObj != nil {
					v := Val{sel(val0, kk), u.Elem()}
					fc.assumeTyped(b, v)
					setVar(b, valObj, v)
				}
				return map[string]Val{"$seen": {seen, nil}, "$n": {cnt, intT}, "$key": kv}
			},
			func(c *State, extra map[string]Val) map[string]Val {
				// ranged map untouched
				fc.assertNamed(c, "range", fmt.Sprintf("loop%d.map-unmodified", n), and(eq(sel(fc.comp(c, dk, ds), m.T), dom0), eq(sel(fc.comp(c, vk, vs), m.T), val0)), "map is not modified while ranged over", s.Pos())
				return map[string]Val{"$seen": {sto(seen, kk, "true"), nil}, "$n": {"(+ " + cnt + " 1)", intT}}
			},
			func(e *State) {})
	case *types.Chan:
		ch := fc.eval(st, s.X)
		fc.checkInvs(st, n, "init", nil, s.Pos())
		h := st.clone()
		fc.havocFor = n
		fc.havocLoop(h, s.Body, nil)
		fc.assumeInvs(h, n, nil)
		okc := fc.smt.fresh("rangeok", "Bool")
		return finish(h, okc,
			func(b *State) map[string]Val {
				v, ok := fc.chanRecv(b, ch, s.X)
				b.assume(ok.T)
				setVar(b, keyObj, v)
				return nil
			},
			func(c *State, extra map[string]Val) map[string]Val { return nil },
			func(e *State) {})
	case *types.Signature:
		return fc.execRangeFunc(st, s, label)
	}
	fc.unsupp(s.Pos(), "range over %s", xt)
	return nil
}

// ---------- switch / select ----------

func (fc *FnCtx) execSwitch(st *State, s *ast.SwitchStmt, label string) []Outcome {
	if s.Init != nil {
		st = fc.exec(st, s.Init, "")[0].st
	}
	var tag *Val
	if s.Tag != nil {
		v := fc.eval(st, s.Tag)
		tag = &v
	}
	var outs []Outcome
	rem := st
	var deflt *ast.CaseClause
	for _, c := range s.Body.List {
		cc := c.(*ast.CaseClause)
		if cc.List == nil {
			deflt = cc
			continue
		}
		var conds []string
		for _, e := range cc.List {
			v := fc.eval(rem, e)
			if tag != nil {
				conds = append(conds, eq(tag.T, v.T))
			} else {
				conds = append(conds, v.T)
			}
		}
		c := or(conds...)
		t := rem.clone()
		t.assume(c)
		fc.branchCanary(t, cc.Pos(), "case")
		outs = append(outs, fc.execBlock(t, cc.Body)...)
		rem = rem.clone()
		rem.assume(not(c))
	}
	if deflt != nil {
		fc.branchCanary(rem, deflt.Pos(), "default")
		outs = append(outs, fc.execBlock(rem, deflt.Body)...)
	} else {
		outs = append(outs, Outcome{kind: oNormal, st: rem})
	}
	// break inside switch terminates the switch
	var res []Outcome
	for _, o := range outs {
		if o.kind == oBreak && (o.label == "" || o.label == label) {
			o.kind = oNormal
		}
		res = append(res, o)
	}
	return fc.joinNormal(res)
}

func (fc *FnCtx) execTypeSwitch(st *State, s *ast.TypeSwitchStmt, label string) []Outcome {
	if s.Init != nil {
		st = fc.exec(st, s.Init, "")[0].st
	}
	var x ast.Expr
	var bind *ast.Ident
	switch a := s.Assign.(type) {
	case *ast.AssignStmt:
		bind = a.Lhs[0].(*ast.Ident)
		x = a.Rhs[0].(*ast.TypeAssertExpr).X
	case *ast.ExprStmt:
		x = a.X.(*ast.TypeAssertExpr).X
	}
	xv := fc.eval(st, x)
	var outs []Outcome
	rem := st
	var deflt *ast.CaseClause
	for _, c := range s.Body.List {
		cc := c.(*ast.CaseClause)
		if cc.List == nil {
			deflt = cc
			continue
		}
		var conds []string
		var single types.Type
		for _, e := range cc.List {
			tv := fc.info.Types[e]
			if tv.IsNil() {
				conds = append(conds, eq(xv.T, "0"))
				continue
			}
			conds = append(conds, fc.typeTest(rem, xv, tv.Type))
			single = tv.Type
		}
		c := or(conds...)
		t := rem.clone()
		t.assume(c)
		if bind != nil {
			if obj := fc.info.Implicits[cc]; obj != nil {
				if len(cc.List) == 1 && single != nil {
					t.vars[obj] = fc.unbox(t, xv, single)
				} else {
					t.vars[obj] = Val{xv.T, obj.Type()}
				}
			}
		}
		fc.branchCanary(t, cc.Pos(), "case")
		outs = append(outs, fc.execBlock(t, cc.Body)...)
		rem = rem.clone()
		rem.assume(not(c))
	}
	if deflt != nil {
		fc.branchCanary(rem, deflt.Pos(), "default")
		if bind != nil {
			if obj := fc.info.Implicits[deflt]; obj != nil {
				rem.vars[obj] = Val{xv.T, obj.Type()}
			}
		}
		outs = append(outs, fc.execBlock(rem, deflt.Body)...)
	} else {
		outs = append(outs, Outcome{kind: oNormal, st: rem})
	}
	var res []Outcome
	for _, o := range outs {
		if o.kind == oBreak && (o.label == "" || o.label == label) {
			o.kind = oNormal
		}
		res = append(res, o)
	}
	return fc.joinNormal(res)
}

func (fc *FnCtx) execSelect(st *State, s *ast.SelectStmt, label string) []Outcome {
	if w := fc.wakeupExpr(); w != "" {
		for _, c := range s.Body.List {
			cc := c.(*ast.CommClause)
			var ue *ast.UnaryExpr
			switch cm := cc.Comm.(type) {
			case *ast.ExprStmt:
				ue, _ = ast.Unparen(cm.X).(*ast.UnaryExpr)
			case *ast.AssignStmt:
				if len(cm.Rhs) == 1 {
					ue, _ = ast.Unparen(cm.Rhs[0]).(*ast.UnaryExpr)
				}
			}
			if ue != nil && ue.Op == token.ARROW && normText(exprText(ue.X)) == w {
				st.latchSeen = true
			}
		}
	}
	var outs []Outcome
	// which case runs is a free choice of the scheduler: a fresh selector makes the cases mutually exclusive, so that the
	// join after the statement picks each case's effects under that case's own condition (the receive assumptions of
	// two cases can hold together, and a join keyed on them would silently prefer the first case)
	choice := fc.smt.fresh("selcase", "Int")
	for ci, c := range s.Body.List {
		cc := c.(*ast.CommClause)
		t := st.clone()
		t.assume(fmt.Sprintf("(= %s %d)", choice, ci))
		live := []*State{t}
		if cc.Comm != nil {
			switch cm := cc.Comm.(type) {
			case *ast.SendStmt:
				ch := fc.eval(t, cm.Chan)
				v := fc.eval(t, cm.Value)
				so := fc.chanSend(t, ch, v, cm)
				live = nil
				for _, o := range so {
					if o.kind == oNormal {
						live = append(live, o.st)
					} else {
						outs = append(outs, o)
					}
				}
			case *ast.ExprStmt:
				ue := cm.X.(*ast.UnaryExpr)
				ch := fc.eval(t, ue.X)
				fc.chanRecv(t, ch, ue)
			case *ast.AssignStmt:
				ue := cm.Rhs[0].(*ast.UnaryExpr)
				ch := fc.eval(t, ue.X)
				v, ok := fc.chanRecv(t, ch, ue)
				vals := []Val{v, ok}
				for i, l := range cm.Lhs {
					if cm.Tok == token.DEFINE {
						if id, isID := l.(*ast.Ident); isID {
							fc.defineVar(t, id, vals[i])
							continue
						}
					}
					fc.assign(t, l, vals[i])
				}
			}
		}
		for _, l := range live {
			fc.branchCanary(l, cc.Pos(), "select-case")
			outs = append(outs, fc.execBlock(l, cc.Body)...)
		}
	}
	var res []Outcome
	for _, o := range outs {
		if o.kind == oBreak && (o.label == "" || o.label == label) {
			o.kind = oNormal
		}
		res = append(res, o)
	}
	return fc.joinNormal(res)
}

// chanSend: obligations for the channel invariant and openness; in a recover scope a send on a
// possibly closed channel may panic, which transfers control to the end of the scope.
func (fc *FnCtx) chanSend(st *State, ch Val, v Val, s *ast.SendStmt) []Outcome {
	ct, _ := ch.Ty.Underlying().(*types.Chan)
	if ct != nil {
		if inv := fc.eng.chanInvFor(fc, ct.Elem()); inv != nil {
			env := fc.specEnvFor(st, inv.Pkg)
			env.old = fc.root().entry
			env.scope[inv.Var] = v
			c := fc.safeSpec(env, inv.Inv.E, inv.Inv.Text)
			fc.assert(st, "chaninv", exprText(s.Chan), s.Pos(), c.T, "value sent satisfies the channel invariant")
		}
	}
	if r := fc.root(); r.ct != nil && s != nil {
		if len(r.ct.SendPre[exprText(s.Chan)]) > 0 {
			fc.hit("sendpre " + exprText(s.Chan))
		}
		for i, cl := range r.ct.SendPre[exprText(s.Chan)] {
			env := &SpecEnv{fc: fc, st: st, old: r.entry, scope: map[string]Val{"$value": v}, oldScope: fc.paramsEntry, pkg: fc.ctPkg(), useVars: true, pos: s.Pos()}
			g := fc.safeSpec(env, cl.E, cl.Text)
			fc.assertNamed(st, "emit", "send."+exprText(s.Chan)+"."+clauseName(cl, i), g.T, "whenever a value is sent on "+exprText(s.Chan)+": "+cl.Text, s.Pos())
		}
	}
	open := sel(fc.comp(st, chanOpenKey, chanOpenSort), ch.T)
	bump := func(x *State) {
		if x.sends == "" {
			x.sends = "0"
		}
		x.sends = "(+ " + x.sends + " 1)"
	}
	if st.recov > 0 {
		// panic path allowed
		p := st.clone()
		p.assume(not(open))
		st.assume(open)
		bump(st)
		return []Outcome{{kind: oNormal, st: st}, {kind: oPanic, st: p}}
	}
	fc.assert(st, "chan", "send-open:"+exprText(s.Chan), s.Pos(), open, "send on a channel that may have been closed (no recover scope)")
	st.assume(open)
	bump(st)
	return normal(st)
}

func containsLoop(n ast.Node) bool {
	found := false
	ast.Inspect(n, func(x ast.Node) bool {
		switch x.(type) {
		case *ast.ForStmt, *ast.RangeStmt:
			found = true
		case *ast.FuncLit:
			return false
		}
		return !found
	})
	return found
}

// heapAtHead: the component as assumed at the loop head after the havoc (the body's starting point)
func (fc *FnCtx) heapAtHead(n int, k, before string) string {
	if h, ok := fc.headHeap[n][k]; ok {
		return h
	}
	return before
}

func normText(s string) string { return strings.Join(strings.Fields(s), "") }

// wakeupExpr: the wake-up channel expression of the contract under verification ("" if none)
func (fc *FnCtx) wakeupExpr() string {
	if r := fc.root(); r.ct != nil && r.ct.Wakeup != "" {
		return normText(r.ct.Wakeup)
	}
	return ""
}

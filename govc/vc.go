package main

// Engine: package loading, contract files, per-function verification driver.

import (
	"fmt"
	"go/ast"
	"go/token"
	"go/types"
	"os"
	"path/filepath"
	"sort"
	"strconv"
	"strings"

	"golang.org/x/tools/go/packages"
)

type Pkg struct {
	*packages.Package
	cf          *ContractFile
	cfSource    string
	importAlias map[string]string
	decls       map[*types.Func]*ast.FuncDecl
	globalInit  map[*types.Var]ast.Expr
}

type Engine struct {
	fset     *token.FileSet
	funcNames map[string]bool
	fieldNames map[string]bool
	pkgs     map[string]*Pkg
	prelude  *ContractFile
	guards   []*Guard
	chanInvs []*ChanInv
	ghosts   []*GhostField
	repo     string
	verif    string
	loadSecs float64
	notes    []string
	curTParams map[string]types.Type // type parameters of the (generic) function under verification
}

const modPath = "github.com/temporalio/s2s-proxy"

func (eng *Engine) load(patterns []string, overlay map[string][]byte) error {
	cfg := &packages.Config{
		Mode:       packages.NeedName | packages.NeedFiles | packages.NeedSyntax | packages.NeedTypes | packages.NeedTypesInfo | packages.NeedImports | packages.NeedDeps | packages.NeedTypesSizes,
		Dir:        eng.repo,
		BuildFlags: []string{"-tags=verif", "-mod=mod"},
		Overlay:    overlay,
		Env:        append(os.Environ(), "PATH=/opt/veriftools/go1.26.8/bin:"+os.Getenv("PATH"), "GOFLAGS=-mod=mod", "GOPROXY=off", "GOSUMDB=off", "GOTOOLCHAIN=local"),
	}
	pkgs, err := packages.Load(cfg, patterns...)
	if err != nil {
		return err
	}
	var errs []string
	for _, p := range pkgs {
		for _, e := range p.Errors {
			errs = append(errs, e.Error())
		}
	}
	if len(errs) > 0 {
		return fmt.Errorf("package load errors: %s", strings.Join(errs, "; "))
	}
	eng.pkgs = map[string]*Pkg{}
	var add func(p *packages.Package)
	add = func(p *packages.Package) {
		if _, ok := eng.pkgs[p.PkgPath]; ok {
			return
		}
		if p.Syntax == nil {
			return
		}
		q := &Pkg{Package: p, importAlias: map[string]string{}, decls: map[*types.Func]*ast.FuncDecl{}}
		eng.pkgs[p.PkgPath] = q
		eng.fset = p.Fset
		for _, f := range p.Syntax {
			for _, im := range f.Imports {
				if im.Name != nil {
					q.importAlias[im.Name.Name] = strings.Trim(im.Path.Value, "\"")
				}
			}
			for _, d := range f.Decls {
				if fd, ok := d.(*ast.FuncDecl); ok {
					if o, ok := p.TypesInfo.Defs[fd.Name].(*types.Func); ok {
						q.decls[o] = fd
					}
				}
			}
		}
	}
	for _, p := range pkgs {
		add(p)
	}
	if eng.fset == nil && len(pkgs) > 0 {
		eng.fset = pkgs[0].Fset
	}
	return eng.loadContracts()
}

func (eng *Engine) declOf(f *types.Func) *ast.FuncDecl {
	f = f.Origin()
	if f.Pkg() == nil {
		return nil
	}
	if p := eng.pkgs[f.Pkg().Path()]; p != nil {
		return p.decls[f]
	}
	return nil
}

// hookDelete: ownership obligations on registry maps (`deletepre field: expr`): every delete from a map held in a
// field of that name, anywhere in the dynamic extent of the function under verification (inlined callees
// included), must satisfy the clause ($key = deleted key, $map = the map, $present = key is in the map).
func (eng *Engine) hookDelete(fc *FnCtx, st *State, call *ast.CallExpr, m, k Val) {
	r := fc.root()
	if r.ct == nil || len(r.ct.DeletePre) == 0 {
		return
	}
	se, ok := ast.Unparen(call.Args[0]).(*ast.SelectorExpr)
	if !ok {
		return
	}
	mt, ok := m.Ty.Underlying().(*types.Map)
	if !ok {
		return
	}
	dk, ds, _, _ := fc.mapKeys(mt)
	present := Val{sel(sel(fc.comp(st, dk, ds), m.T), k.T), types.Typ[types.Bool]}
	if len(r.ct.DeletePre[se.Sel.Name]) > 0 {
		fc.hit("deletepre " + se.Sel.Name)
	}
	for i, cl := range r.ct.DeletePre[se.Sel.Name] {
		env := &SpecEnv{fc: r, st: st, old: r.entry, scope: map[string]Val{"$key": k, "$map": m, "$present": present}, oldScope: r.paramsEntry, pkg: r.ctPkg(), useVars: true, outermost: true}
		g := r.safeSpec(env, cl.E, cl.Text)
		fc.assertNamed(st, "own", "delete."+se.Sel.Name+"."+clauseName(cl, i), g.T, "whenever an entry of "+se.Sel.Name+" is deleted: "+cl.Text, call.Pos())
	}
}

// loadContracts reads the contract file of each loaded package (in-repo file first, mirror as fallback)
func (eng *Engine) loadContracts() error {
	var paths []string
	for p := range eng.pkgs {
		paths = append(paths, p)
	}
	sort.Strings(paths)
	for _, path := range paths {
		p := eng.pkgs[path]
		rel := strings.TrimPrefix(strings.TrimPrefix(path, modPath), "/")
		inRepo := filepath.Join(eng.repo, rel, "zz_contracts_verif.go")
		mirror := filepath.Join(eng.verif, "contracts", rel, "zz_contracts_verif.go")
		if !strings.HasPrefix(path, modPath) {
			// dependency package: contracts only in /verif/contracts/deps/<path>
			mirror = filepath.Join(eng.verif, "contracts", "deps", path, "contracts.txt")
			inRepo = ""
		}
		var src string
		if inRepo != "" {
			if _, err := os.Stat(inRepo); err == nil {
				src = inRepo
			}
		}
		if src == "" {
			if _, err := os.Stat(mirror); err == nil {
				src = mirror
				if inRepo != "" {
					eng.notes = append(eng.notes, "contracts for "+rel+" read from the mirror (in-repo file missing)")
				}
			}
		}
		if src == "" {
			continue
		}
		cf, err := readContractFile(src, path)
		if err != nil {
			return err
		}
		p.cf = cf
		p.cfSource = src
		eng.guards = append(eng.guards, cf.Guards...)
		eng.chanInvs = append(eng.chanInvs, cf.ChanInvs...)
		eng.ghosts = append(eng.ghosts, cf.Ghosts...)
	}
	pre := filepath.Join(eng.verif, "contracts", "prelude.txt")
	if _, err := os.Stat(pre); err == nil {
		cf, err := readContractFile(pre, "")
		if err != nil {
			return err
		}
		eng.prelude = cf
		eng.ghosts = append(eng.ghosts, cf.Ghosts...)
	}
	return nil
}

// findFunc locates a function by contract key in a package
func (p *Pkg) findFunc(key string) (*types.Func, *ast.FuncDecl) {
	for f, d := range p.decls {
		if funcKey(f, p.Types) == key {
			return f, d
		}
	}
	return nil, nil
}

type FuncResult struct {
	Key         string
	Pkg         string
	Obls        []*Obligation
	Unsupported string
	Warnings    []string
	SMT         *SMT
	Paths       int
	ReqSat      []*Obligation
	Observe     []obsTerm
	Trusted     []string // extern contracts, quiet functions and library models the proof of this function relies on
	Requires    []string // preconditions of this function (assumed here; obligations of callers under contract)
}

func (fc *FnCtx) prepare() {
	// loop ordinals (syntactic order) and address-taken locals
	n := 0
	if fc.decl == nil || fc.decl.Body == nil {
		return
	}
	ast.Inspect(fc.decl.Body, func(x ast.Node) bool {
		switch s := x.(type) {
		case *ast.ForStmt:
			n++
			fc.loopOrd[s] = n
		case *ast.RangeStmt:
			n++
			fc.loopOrd[s] = n
		case *ast.UnaryExpr:
			if s.Op == token.AND {
				if id, ok := ast.Unparen(s.X).(*ast.Ident); ok {
					if obj, ok := fc.info.Uses[id].(*types.Var); ok && !(obj.Pkg() != nil && obj.Parent() == obj.Pkg().Scope()) {
						fc.boxed[obj] = true
					}
				}
			}
		case *ast.FuncLit:
			// variables assigned inside closures that outlive statements (go/defer) are shared; boxed not needed for inline closures
		}
		return true
	})
}

// verifyFunction generates all obligations of one function under contract.
func (eng *Engine) verifyFunction(p *Pkg, key string, ct *Contract) (res *FuncResult) {
	res = &FuncResult{Key: p.Types.Name() + "." + key, Pkg: p.PkgPath}
	var f *types.Func
	var decl *ast.FuncDecl
	var sig *types.Signature
	isClosure := false
	outerLits := 0
	if i := strings.LastIndex(key, "$"); i > 0 && !strings.HasPrefix(key, "$") {
		// closure contract Outer$N: the N-th function literal (source order) inside Outer
		_, outer := p.findFunc(key[:i])
		n, _ := strconv.Atoi(key[i+1:])
		if outer != nil && outer.Body != nil && n > 0 {
			k := 0
			ast.Inspect(outer.Body, func(x ast.Node) bool {
				if lit, ok := x.(*ast.FuncLit); ok {
					k++
					if k == n && decl == nil {
						decl = &ast.FuncDecl{Name: ast.NewIdent(key), Type: lit.Type, Body: lit.Body}
						sig, _ = p.TypesInfo.TypeOf(lit).(*types.Signature)
					}
				}
				return true
			})
			outerLits = k
		}
		isClosure = true
	} else {
		f, decl = p.findFunc(key)
		if f != nil {
			sig = f.Type().(*types.Signature)
		}
	}
	if decl == nil || decl.Body == nil || sig == nil {
		res.Unsupported = "function " + key + " not found in package " + p.PkgPath + " (contract is stale)"
		return res
	}
	if ct != nil && ct.Shape != "" {
		now := shapeOf(p, decl, sig)
		if isClosure {
			now += fmt.Sprintf(";outerlits=%d", outerLits)
		}
		if why := shapeStale(ct, ct.Shape, now); why != "" {
			res.Unsupported = "contract is stale: " + why + " - the contract was written for `" + ct.Shape + "`, the function is `" + now + "`"
			return res
		}
	}
	fc := &FnCtx{eng: eng, pkg: p, fn: f, decl: decl, body: decl.Body, ct: ct, key: res.Key, smt: newSMT(),
		loopOrd: map[ast.Stmt]int{}, boxed: map[types.Object]bool{}, occ: map[string]map[token.Pos]int{}, info: p.TypesInfo,
		paramsEntry: map[string]Val{}, isClosure: isClosure}
	res.SMT = fc.smt
	eng.curTParams = map[string]types.Type{}
	if tps := sig.TypeParams(); tps != nil {
		for i := 0; i < tps.Len(); i++ {
			eng.curTParams[tps.At(i).Obj().Name()] = tps.At(i)
		}
	}
	if rtp := sig.RecvTypeParams(); rtp != nil {
		for i := 0; i < rtp.Len(); i++ {
			eng.curTParams[rtp.At(i).Obj().Name()] = rtp.At(i)
		}
	}
	defer func() {
		res.Obls = fc.obls
		res.Warnings = fc.warnings
		for t := range fc.trusted {
			res.Trusted = append(res.Trusted, t)
		}
		sort.Strings(res.Trusted)
		for _, rq := range ct.Requires {
			res.Requires = append(res.Requires, rq.Text)
		}
		if r := recover(); r != nil {
			switch e := r.(type) {
			case unsupportedErr:
				res.Unsupported = e.msg
			case specErr:
				res.Unsupported = "contract does not resolve: " + e.msg
			default:
				res.Unsupported = fmt.Sprintf("internal error of the generator: %v", r)
			}
		}
	}()
	fc.prepare()
	// a loop clause that names a loop the function does not have would be silently ignored: reject it
	if ct != nil {
		maxLoop := 0
		for _, n := range fc.loopOrd {
			if n > maxLoop {
				maxLoop = n
			}
		}
		check := func(n int, what string) {
			if n < 1 || n > maxLoop {
				panic(unsupportedErr{fmt.Sprintf("contract names loop %d (%s) but the function has %d loops", n, what, maxLoop)})
			}
		}
		for n := range ct.LoopInv {
			check(n, "invariant")
		}
		for n := range ct.LoopDec {
			check(n, "decreases")
		}
	}
	fc.addAxioms()
	st := &State{vars: map[types.Object]Val{}, heap: map[string]string{}, locks: map[string]string{}, known: map[string]bool{}, closures: map[string]*closure{}}
	fc.smt.declare("top0", "(declare-const top0 Int)")
	st.top = "top0"
	st.assume("(>= top0 0)")
	scope := map[string]Val{}
	fc.entryScope = scope
	bind := func(id *ast.Ident) {
		obj, _ := p.TypesInfo.Defs[id].(*types.Var)
		if obj == nil || id.Name == "_" {
			return
		}
		v := fc.freshVal(st, id.Name, obj.Type())
		scope[id.Name] = v
		fc.paramsEntry[id.Name] = v
		if fc.boxed[obj] {
			pv := Val{fc.alloc(st, "box_"+id.Name), types.NewPointer(obj.Type())}
			fc.storeDeref(st, pv, v)
			st.vars[obj] = pv
		} else {
			st.vars[obj] = v
		}
	}
	if decl.Recv != nil && len(decl.Recv.List) > 0 {
		for _, n := range decl.Recv.List[0].Names {
			bind(n)
			fc.recvName = n.Name
			if rv, ok := scope[n.Name]; ok {
				if _, isPtr := rv.Ty.Underlying().(*types.Pointer); isPtr {
					st.assume("(> " + rv.T + " 0)") // implicit: methods are called on non-nil receivers (checked at call sites)
					st.known["nn:"+rv.T] = true
				}
			}
		}
	}
	for _, fl := range decl.Type.Params.List {
		for _, n := range fl.Names {
			bind(n)
		}
	}
	if isClosure {
		// captured variables: arbitrary values fixed at entry
		seen := map[types.Object]bool{}
		ast.Inspect(decl.Body, func(x ast.Node) bool {
			id, ok := x.(*ast.Ident)
			if !ok {
				return true
			}
			o, ok := p.TypesInfo.Uses[id].(*types.Var)
			if !ok || seen[o] || o.IsField() || (o.Pkg() != nil && o.Parent() == o.Pkg().Scope()) {
				return true
			}
			if o.Pos() >= decl.Type.Pos() && o.Pos() <= decl.Body.End() {
				return true
			}
			seen[o] = true
			cv := fc.freshVal(st, "cap_"+o.Name(), o.Type())
			st.vars[o] = cv
			scope[o.Name()] = cv
			fc.paramsEntry[o.Name()] = cv
			if fc.capturedVars == nil {
				fc.capturedVars = map[string]types.Object{}
			}
			fc.capturedVars[o.Name()] = o
			return true
		})
	}
	for j := 0; j < sig.Results().Len(); j++ {
		fc.results = append(fc.results, sig.Results().At(j))
	}
	if decl.Type.Results != nil {
		for _, fl := range decl.Type.Results.List {
			for _, n := range fl.Names {
				if obj := p.TypesInfo.Defs[n]; obj != nil && n.Name != "_" {
					st.vars[obj] = Val{fc.smt.zero(obj.Type()), obj.Type()}
				}
			}
		}
	}
	// requires
	cpkg := p
	env := &SpecEnv{fc: fc, st: st, old: st, scope: scope, oldScope: scope, pkg: cpkg}
	for _, rq := range ct.Requires {
		if c, ok := rq.E.(*SCall); ok {
			if id, ok := c.Fun.(*SIdent); ok && id.Name == "held" && len(c.Args) == 1 {
				lid := fc.specLockID(env, c.Args[0])
				st.locks[lid] = "w"
				fc.entryLocks = append(fc.entryLocks, lid)
				continue
			}
		}
		st.assume(fc.safeSpec(env, rq.E, rq.Text).T)
	}
	fc.entry = st.clone()
	{
		var names []string
		for n := range scope {
			names = append(names, n)
		}
		sort.Strings(names)
		for _, n := range names {
			fc.observe(fc.entry, n, scope[n], 0, &res.Observe)
		}
	}
	// vacuity: the precondition must be satisfiable
	res.ReqSat = append(res.ReqSat, &Obligation{Name: res.Key + "#vacuity:requires", Kind: "vacuity", Goal: "false", PC: append([]string(nil), st.pc...), Vacuity: true})

	if ct.Wakeup != "" {
		fc.checkWakeup(st, decl.Body, ct.Wakeup)
	}
	if ct.FirstDefer != "" {
		ok := false
		if len(decl.Body.List) > 0 {
			if ds, isDefer := decl.Body.List[0].(*ast.DeferStmt); isDefer && exprText(ds.Call.Fun) == ct.FirstDefer {
				ok = true
			}
		}
		goal := "true"
		if !ok {
			goal = "false"
		}
		fc.obls = append(fc.obls, &Obligation{Name: res.Key + "#struct:first-defer", Kind: "struct", Goal: goal, PC: nil,
			Desc: "the first statement of the body is `defer " + ct.FirstDefer + "(...)` (panic capture installed before anything else)", Pos: eng.fset.Position(decl.Body.Pos())})
	}
	outs := fc.execBlock(st, decl.Body.List)
	for _, o := range outs {
		switch o.kind {
		case oNormal:
			var vals []Val
			for _, r := range fc.results {
				if v, ok := o.st.vars[r]; ok {
					vals = append(vals, v)
				} else {
					vals = append(vals, Val{fc.smt.zero(r.Type()), r.Type()})
				}
			}
			fc.reachCanary(o.st, decl.Body.Rbrace)
			fc.finish(o.st, vals, false)
		case oReturn:
			fc.reachCanary(o.st, o.pos)
			fc.finish(o.st, o.vals, false)
		case oPanic:
			fc.finish(o.st, nil, true)
		default:
			fc.unsupp(decl.Pos(), "break/continue outside loop")
		}
	}
	res.Paths = fc.npaths
	res.ReqSat = append(res.ReqSat, fc.canaries...)
	if stale := fc.staleClauses(p, key); len(stale) > 0 && res.Unsupported == "" {
		res.Unsupported = "contract is stale: the body has no site left for " + strings.Join(stale, ", ") + " (the clause was written for a different body)"
		fc.obls, res.ReqSat = nil, nil
	}
	return res
}

// staleClauses: emit-clauses and caller-scoped function-value externs of the contract that met no call / send / store /
// write / delete site while the body was executed. Such a contract describes a body that no longer exists (a renamed
// loop variable holding the function value, a call that has moved into another function): nothing can be concluded
// from the obligations it still generates, so the function is reported as not verified instead.
func (fc *FnCtx) staleClauses(p *Pkg, key string) []string {
	ct := fc.ct
	if ct == nil {
		return nil
	}
	var out []string
	chk := func(kind string, m map[string][]Clause) {
		var ks []string
		for k := range m {
			ks = append(ks, k)
		}
		sort.Strings(ks)
		for _, k := range ks {
			if len(m[k]) > 0 && !fc.clauseHit[kind+" "+k] && !ct.OptionalSites[kind+" "+k] {
				out = append(out, kind+" "+k)
			}
		}
	}
	// callpre on a NAMED function is exempt: if its last call site is gone, a call was removed (a change of behaviour
	// the other obligations have to judge), whereas a function-VALUE key is the text of a variable that may simply
	// have been renamed
	fv := map[string][]Clause{}
	for k, v := range ct.CallPre {
		base := k
		if i := strings.LastIndex(k, "."); i > 0 {
			if _, err := strconv.Atoi(k[i+1:]); err == nil {
				base = k[:i]
			}
		}
		if !fc.eng.isFuncName(base) && !strings.HasPrefix(base, "(") {
			fv[k] = v
		}
	}
	chk("callpre", fv)
	chk("sendpre", ct.SendPre)
	// maps held in FIELDS are exempt for the same reason (a store that is gone was removed, not renamed - a renamed
	// field would leave the rest of the contract unresolvable anyway); only a local map variable can be renamed quietly.
	// writepre / deletepre are keyed on field names throughout.
	localMaps := map[string][]Clause{}
	for k, v := range ct.StorePre {
		if !fc.eng.isFieldName(k) {
			localMaps[k] = v
		}
	}
	chk("storepre", localMaps)
	if p.cf != nil {
		var ks []string
		for k := range p.cf.Contracts {
			if strings.HasPrefix(k, "$") && strings.HasSuffix(k, "@"+key) {
				ks = append(ks, k)
			}
		}
		sort.Strings(ks)
		for _, k := range ks {
			if !fc.clauseHit["extern "+k[:strings.Index(k, "@")]] {
				out = append(out, "extern "+k)
			}
		}
	}
	return out
}

func (fc *FnCtx) addAxioms() {
	add := func(cf *ContractFile, p *Pkg) {
		if cf == nil {
			return
		}
		for _, ax := range cf.Axioms {
			st := &State{vars: map[types.Object]Val{}, heap: map[string]string{}, locks: map[string]string{}, known: map[string]bool{}, closures: map[string]*closure{}, top: "top0"}
			env := &SpecEnv{fc: fc, st: st, old: st, scope: map[string]Val{}, oldScope: map[string]Val{}, pkg: p}
			t := fc.safeSpec(env, ax.C.E, ax.C.Text).T
			fc.smt.axiom(t)
			if strings.HasPrefix(ax.C.Label, "mod_") || strings.HasPrefix(ax.C.Label, "div_") {
				fc.smt.modLemma[t] = true
			}
		}
	}
	add(fc.pkg.cf, fc.pkg)
	add(fc.eng.prelude, fc.pkg)
}

// reachCanary: one satisfiability check per path that reaches a return statement; a return statement that no path can
// reach under the contract is reported (as a note, not as a failure): what the contract says about that exit is
// vacuous - either the precondition excludes it on purpose, or the model of some construct has made the branch dead.
func (fc *FnCtx) reachCanary(st *State, pos token.Pos) {
	if !pos.IsValid() {
		return
	}
	pp := fc.eng.fset.Position(pos)
	fc.canaries = append(fc.canaries, &Obligation{Name: fmt.Sprintf("%s#reach:return@%s:%d", fc.key, shortFile(pp.Filename), pp.Line), Kind: "vacuity", Goal: "false",
		PC: append([]string(nil), st.pc...), Vacuity: true, Pos: pp})
}

// branchCanary: the same for the branches of `if` / `switch` statements in the body of the function under contract
// itself (not in callees executed inline, whose branches are often decided by the call context).
func (fc *FnCtx) branchCanary(st *State, pos token.Pos, what string) {
	if fc != fc.root() || !pos.IsValid() {
		return
	}
	pp := fc.eng.fset.Position(pos)
	fc.canaries = append(fc.canaries, &Obligation{Name: fmt.Sprintf("%s#reach:%s@%s:%d", fc.key, what, shortFile(pp.Filename), pp.Line), Kind: "vacuity", Goal: "false",
		PC: append([]string(nil), st.pc...), Vacuity: true, Pos: pp})
}

// finish: run deferred calls, then check postconditions, frame and lock discipline.
func (fc *FnCtx) finish(st *State, vals []Val, panicked bool) {
	for _, o := range fc.runDefers(st, 0) {
		fc.npaths++
		// reachability canary: at least one exit path of the function must be satisfiable
		fc.canaries = append(fc.canaries, &Obligation{Name: fmt.Sprintf("%s#vacuity:exit", fc.key), Kind: "vacuity", Goal: "false", PC: append([]string(nil), o.st.pc...), Vacuity: true})
		fc.checkPost(o.st, vals, panicked)
	}
}

func (fc *FnCtx) checkPost(st *State, vals []Val, panicked bool) {
	ct := fc.ct
	pos := fc.decl.Pos()
	if panicked {
		if !ct.PanicsOK {
			fc.assertNamed(st, "panic", "escapes", "false", "a panic escapes the function", pos)
		}
		// locks must still be released
	}
	var held []string
	for id := range st.locks {
		held = append(held, id)
	}
	sort.Strings(held)
	for _, id := range held {
		atEntry := false
		for _, e := range fc.entryLocks {
			if e == id {
				atEntry = true
			}
		}
		if atEntry {
			continue // held by the caller
		}
		fc.assertNamed(st, "lock", "released:"+id[:strings.Index(id, "@")], "false", "function exits with lock "+id+" held", pos)
	}
	if panicked {
		return
	}
	scope := map[string]Val{}
	for k, v := range fc.paramsEntry {
		scope[k] = v
	}
	// a captured variable is shared with the enclosing function: in a postcondition its name means the value the
	// literal leaves behind (old(x) is the value it found)
	for n, o := range fc.capturedVars {
		if v, ok := st.vars[o]; ok {
			if fc.isBoxed(o) {
				v = fc.deref(st, v)
			}
			scope[n] = v
		}
	}
	for i, r := range fc.results {
		if i < len(vals) {
			v := vals[i]
			v.Ty = r.Type()
			if r.Name() != "" && r.Name() != "_" {
				scope[r.Name()] = v
			}
			scope[fmt.Sprintf("result%d", i)] = v
			if i == 0 {
				scope["result"] = v
			}
		}
	}
	env := &SpecEnv{fc: fc, st: st, old: fc.entry, scope: scope, oldScope: fc.paramsEntry, pkg: fc.pkg, useVars: true, outermost: true}
	for i, en := range ct.Ensures {
		v := fc.safeSpec(env, en.E, en.Text)
		fc.assertNamed(st, "post", clauseName(en, i), v.T, "postcondition: "+en.Text, pos)
	}
	if ct.HasAssigns {
		fc.checkFrame(st, "", pos)
	}
}

type frameSpec struct {
	allowed map[string][]string
	wholeOK map[string]bool
}

// frameSpecOf evaluates the assigns clause of the function under verification (nil: no frame to check)
func (fc *FnCtx) frameSpecOf() *frameSpec {
	r := fc.root()
	if r.frameDone {
		return r.frame
	}
	r.frameDone = true
	ct := r.ct
	if ct == nil || !ct.HasAssigns {
		return nil
	}
	entry := r.entry
	fs := &frameSpec{allowed: map[string][]string{}, wholeOK: map[string]bool{}}
	allowed, wholeOK := fs.allowed, fs.wholeOK
	penv := &SpecEnv{fc: r, st: entry, old: entry, scope: r.paramsEntry, oldScope: r.paramsEntry, pkg: r.pkg}
	for _, item := range ct.Assigns {
		item = strings.TrimSpace(item)
		if item == "*" {
			return nil
		}
		e, err := parseSpecExpr(item)
		if err != nil {
			panic(unsupportedErr{"bad assigns item " + item})
		}
		switch x := e.(type) {
		case *SSel:
			base := r.safeSpec(penv, x.X, item)
			if g := r.eng.ghostField(base.Ty, x.Name); g != nil {
				key := "F$" + structKeyName(base.Ty) + ".ghost_" + g.Name
				allowed[key] = append(allowed[key], base.T)
				continue
			}
			sT, su, _ := derefStruct(base.Ty)
			if su == nil {
				panic(unsupportedErr{"assigns item must be ptr.field: " + item})
			}
			i := fieldIndex(su, x.Name)
			if i < 0 {
				panic(unsupportedErr{"assigns: no field " + x.Name})
			}
			k, _ := r.fieldKey(sT, su.Field(i))
			allowed[k] = append(allowed[k], base.T)
		case *SCall:
			id, _ := x.Fun.(*SIdent)
			switch {
			case id != nil && id.Name == "elems":
				s := r.safeSpec(penv, x.Args[0], item)
				sl := s.Ty.Underlying().(*types.Slice)
				k, _ := r.elemsKey(sl.Elem())
				allowed[k] = append(allowed[k], "(s_base "+s.T+")")
			case id != nil && id.Name == "contents":
				m := r.safeSpec(penv, x.Args[0], item)
				switch u := m.Ty.Underlying().(type) {
				case *types.Map:
					dk, _, vk, _ := r.mapKeys(u)
					allowed[dk] = append(allowed[dk], m.T)
					allowed[vk] = append(allowed[vk], m.T)
					allowed[mapLenKey] = append(allowed[mapLenKey], m.T)
				case *types.Slice:
					k, _ := r.elemsKey(u.Elem())
					allowed[k] = append(allowed[k], "(s_base "+m.T+")")
				case *types.Pointer:
					sT, su, _ := derefStruct(m.Ty)
					for i := 0; su != nil && i < su.NumFields(); i++ {
						k, _ := r.fieldKey(sT, su.Field(i))
						allowed[k] = append(allowed[k], m.T)
						if sl, ok := su.Field(i).Type().Underlying().(*types.Slice); ok {
							ek, _ := r.elemsKey(sl.Elem())
							wholeOK[ek] = true
						}
					}
				}
			case id != nil && id.Name == "all":
				tn := specTypeText(x.Args[0])
				di := strings.LastIndex(tn, ".")
				if t := r.eng.resolveType(r.pkg, tn[:di]); t != nil {
					if g := r.eng.ghostField(t, tn[di+1:]); g != nil {
						wholeOK["F$"+structKeyName(t)+".ghost_"+g.Name] = true
					}
					if _, su, _ := derefStruct(t); su != nil {
						if i := fieldIndex(su, tn[di+1:]); i >= 0 {
							k, _ := r.fieldKey(t, su.Field(i))
							wholeOK[k] = true
						}
					}
				}
			case id != nil && id.Name == "open":
				ch := r.safeSpec(penv, x.Args[0], item)
				allowed[chanOpenKey] = append(allowed[chanOpenKey], ch.T)
			default:
				panic(unsupportedErr{"unsupported assigns item: " + item})
			}
		case *SIdent:
			if o, ok := r.pkg.Types.Scope().Lookup(x.Name).(*types.Var); ok {
				wholeOK["G$"+o.Pkg().Name()+"."+o.Name()] = true
			}
		default:
			panic(unsupportedErr{"unsupported assigns item: " + item})
		}
	}
	r.frame = fs
	return fs
}

// frameFormula: "every location of component k that existed at entry and is not assignable is unchanged"
func (fc *FnCtx) frameFormula(st *State, k string) (string, bool) {
	fs := fc.frameSpecOf()
	if fs == nil {
		return "", false
	}
	cur, okc := st.heap[k]
	init, ok := fc.smt.initHeap[k]
	if !okc || !ok || cur == init || fs.wholeOK[k] {
		return "", false
	}
	if strings.HasPrefix(k, "G$") {
		return eq(cur, init), true
	}
	fc.smt.nfresh++
	q := fmt.Sprintf("r!q%d", fc.smt.nfresh)
	conds := []string{"(<= 0 " + q + ")", "(<= " + q + " top0)"}
	for _, a := range fs.allowed[k] {
		conds = append(conds, not(eq(q, a)))
	}
	return fmt.Sprintf("(forall ((%s Int)) (! (=> %s (= (select %s %s) (select %s %s))) :pattern ((select %s %s))))", q, and(conds...), cur, q, init, q, cur, q), true
}

func sortedHeapKeys(st *State) []string {
	var keys []string
	for k := range st.heap {
		keys = append(keys, k)
	}
	sort.Strings(keys)
	return keys
}

// checkFrame: every pre-existing location outside the assigns clause is unchanged.
func (fc *FnCtx) checkFrame(st *State, tag string, pos token.Pos) {
	for _, k := range sortedHeapKeys(st) {
		if f, ok := fc.frameFormula(st, k); ok {
			fc.assertNamed(st, "frame", tag+k, f, "only locations in the assigns clause change in "+k, pos)
		}
	}
}

// assumeFrame is the frame used as an implicit loop invariant (after a loop havoc)
func (fc *FnCtx) assumeFrame(st *State) {
	for _, k := range sortedHeapKeys(st) {
		if f, ok := fc.frameFormula(st, k); ok {
			st.assume(f)
		}
	}
}

// seqFns: an iterator value (iter.Seq / iter.Seq2) is modelled as an abstract finite sequence
//   seqlen(it) >= 0, seqkey(it, i), seqval(it, i)
func (fc *FnCtx) seqFns(kt, vt types.Type) (ln, key, val string) {
	ks := fc.smt.sortOf(kt)
	ln = "seqlen"
	fc.smt.declare(ln, "(declare-fun seqlen (Int) Int)")
	fc.smt.axiom("(forall ((it Int)) (! (>= (seqlen it) 0) :pattern ((seqlen it))))")
	key = "seqkey_" + sanitize(ks)
	fc.smt.declare(key, fmt.Sprintf("(declare-fun %s (Int Int) %s)", key, ks))
	if vt != nil {
		vs := fc.smt.sortOf(vt)
		val = "seqval_" + sanitize(vs)
		fc.smt.declare(val, fmt.Sprintf("(declare-fun %s (Int Int) %s)", val, vs))
	}
	return
}

// execRangeFunc: range over an iterator function value: the body runs for i = 0 .. seqlen(it)-1 with
// (key, val) = (seqkey(it,i), seqval(it,i)); invariants may use $i, $len.
func (fc *FnCtx) execRangeFunc(st *State, s *ast.RangeStmt, label string) []Outcome {
	n := fc.loopNumber(s)
	sig, _ := fc.typeOf(s.X).Underlying().(*types.Signature)
	if sig == nil || sig.Params().Len() != 1 {
		fc.unsupp(s.Pos(), "range over this function type")
	}
	ysig, _ := sig.Params().At(0).Type().Underlying().(*types.Signature)
	if ysig == nil || ysig.Params().Len() < 1 || ysig.Params().Len() > 2 {
		fc.unsupp(s.Pos(), "range over this function type")
	}
	kt := ysig.Params().At(0).Type()
	var vt types.Type
	if ysig.Params().Len() == 2 {
		vt = ysig.Params().At(1).Type()
	}
	it := fc.eval(st, s.X)
	lnF, keyF, valF := fc.seqFns(kt, vt)
	ln := "(" + lnF + " " + it.T + ")"
	var keyObj, valObj types.Object
	if id, ok := s.Key.(*ast.Ident); ok && id.Name != "_" {
		if keyObj = fc.info.Defs[id]; keyObj == nil {
			keyObj = fc.info.Uses[id]
		}
	}
	if id, ok := s.Value.(*ast.Ident); ok && id.Name != "_" {
		if valObj = fc.info.Defs[id]; valObj == nil {
			valObj = fc.info.Uses[id]
		}
	}
	extra := func(i string) map[string]Val { return map[string]Val{"$i": {i, intT}, "$len": {ln, intT}} }
	fc.checkInvs(st, n, "init", extra("0"), s.Pos())
	h := st.clone()
	fc.havocFor = n
	fc.havocLoop(h, s.Body, nil)
	i := fc.smt.fresh("ri", "Int")
	h.assume(fmt.Sprintf("(and (<= 0 %s) (<= %s %s))", i, i, ln))
	fc.assumeInvs(h, n, extra(i))
	body := h.clone()
	body.assume("(< " + i + " " + ln + ")")
	if keyObj != nil {
		kv := Val{"(" + keyF + " " + it.T + " " + i + ")", keyObj.Type()}
		fc.assumeTyped(body, kv)
		body.vars[keyObj] = kv
	}
	if valObj != nil && vt != nil {
		vv := Val{"(" + valF + " " + it.T + " " + i + ")", valObj.Type()}
		fc.assumeTyped(body, vv)
		body.vars[valObj] = vv
	}
	outs := fc.execBlock(body, s.Body.List)
	cont, brk, rest := fc.loopCtl(outs, label)
	for _, c := range cont {
		fc.checkInvs(c, n, "preserve", extra("(+ "+i+" 1)"), s.Pos())
	}
	exit := h.clone()
	exit.assume(eq(i, ln))
	exits := append([]*State{exit}, brk...)
	var outsF []Outcome
	if m := fc.mergeStates(exits); m != nil {
		outsF = append(outsF, Outcome{kind: oNormal, st: m})
	} else {
		for _, e := range exits {
			outsF = append(outsF, Outcome{kind: oNormal, st: e})
		}
	}
	return append(outsF, rest...)
}

// checkWakeup: progress condition of a worker loop. Every blocking channel operation in the body (function literals
// excluded) must be a select that also receives from the wake-up channel `want` (or has a default clause). This is a
// syntactic obligation: it is generated per offending operation with goal `false`.
func (fc *FnCtx) checkWakeup(st *State, body *ast.BlockStmt, want string) {
	norm := func(s string) string { return strings.Join(strings.Fields(s), "") }
	want = norm(want)
	n := map[string]int{}
	flag := func(kind string, pos token.Pos, what string) {
		n[kind]++
		fc.assertNamed(st, "wakeup", fmt.Sprintf("%s.%d", kind, n[kind]), "false", what+" can block without listening on "+want, pos)
	}
	var walk func(x ast.Node)
	walk = func(x ast.Node) {
		ast.Inspect(x, func(y ast.Node) bool {
			switch y := y.(type) {
			case *ast.FuncLit:
				return false
			case *ast.SelectStmt:
				guarded := false
				for _, c := range y.Body.List {
					cc := c.(*ast.CommClause)
					if cc.Comm == nil {
						guarded = true
						continue
					}
					var ue *ast.UnaryExpr
					switch cm := cc.Comm.(type) {
					case *ast.ExprStmt:
						ue, _ = ast.Unparen(cm.X).(*ast.UnaryExpr)
					case *ast.AssignStmt:
						if len(cm.Rhs) == 1 {
							ue, _ = ast.Unparen(cm.Rhs[0]).(*ast.UnaryExpr)
						}
					}
					if ue != nil && ue.Op == token.ARROW && norm(exprText(ue.X)) == want {
						guarded = true
					}
				}
				if !guarded {
					flag("select", y.Pos(), "select statement")
				}
				for _, c := range y.Body.List {
					for _, b := range c.(*ast.CommClause).Body {
						walk(b)
					}
				}
				return false
			case *ast.UnaryExpr:
				if y.Op == token.ARROW {
					flag("recv", y.Pos(), "channel receive "+exprText(y))
				}
			case *ast.SendStmt:
				flag("send", y.Pos(), "channel send "+exprText(y.Chan))
			case *ast.RangeStmt:
				if t := fc.typeOf(y.X); t != nil {
					if _, ok := t.Underlying().(*types.Chan); ok {
						flag("range", y.Pos(), "range over channel "+exprText(y.X))
					}
				}
			}
			return true
		})
	}
	walk(body)
}

// isFieldName: some struct field of that name is declared in the loaded packages.
func (eng *Engine) isFieldName(name string) bool {
	if eng.fieldNames == nil {
		eng.fieldNames = map[string]bool{}
		for _, p := range eng.pkgs {
			if p.TypesInfo == nil {
				continue
			}
			for _, o := range p.TypesInfo.Defs {
				if v, ok := o.(*types.Var); ok && v.IsField() {
					eng.fieldNames[v.Name()] = true
				}
			}
		}
	}
	return eng.fieldNames[name]
}

// isFuncName: some function or method of that name is declared or referenced in the loaded packages.
func (eng *Engine) isFuncName(name string) bool {
	if eng.funcNames == nil {
		eng.funcNames = map[string]bool{}
		for _, p := range eng.pkgs {
			if p.TypesInfo == nil {
				continue
			}
			for _, o := range p.TypesInfo.Defs {
				if f, ok := o.(*types.Func); ok {
					eng.funcNames[f.Name()] = true
				}
			}
			for _, o := range p.TypesInfo.Uses {
				if f, ok := o.(*types.Func); ok {
					eng.funcNames[f.Name()] = true
				}
			}
		}
	}
	return eng.funcNames[name]
}

// shapeOf: what a contract's text silently depends on - the names and types of receiver, parameters and results
// (clauses name them), the loops in syntactic order with their form (loop clauses go by ordinal) and the number of
// function literals (`Outer$N` goes by ordinal). Recorded in the contract as `shape ...` by `govc shapes`; a body whose
// shape differs is reported as not verified instead of being checked against a contract written for another body.
func shapeOf(p *Pkg, decl *ast.FuncDecl, sig *types.Signature) string {
	rel := func(t types.Type) string { return typeTextRel(t, p) }
	var b strings.Builder
	b.WriteString("sig=")
	if r := sig.Recv(); r != nil {
		b.WriteString("(" + r.Name() + " " + rel(r.Type()) + ")")
	}
	tup := func(t *types.Tuple) {
		b.WriteString("(")
		for i := 0; i < t.Len(); i++ {
			if i > 0 {
				b.WriteString(",")
			}
			b.WriteString(t.At(i).Name() + " " + rel(t.At(i).Type()))
		}
		b.WriteString(")")
	}
	tup(sig.Params())
	tup(sig.Results())
	var loops []string
	lits := 0
	fvs := map[string]bool{}
	ast.Inspect(decl.Body, func(x ast.Node) bool {
		switch s := x.(type) {
		case *ast.CallExpr:
			// calls through function VALUES (variables, fields, parameters of function type): contracts refer to them by
			// their text (`extern $s.report`, `callpre fn`), and one without a contract havocs the heap
			fun := ast.Unparen(s.Fun)
			if _, isLit := fun.(*ast.FuncLit); !isLit {
				if tv, ok := p.TypesInfo.Types[fun]; ok && !tv.IsType() && !tv.IsBuiltin() {
					if _, isSig := tv.Type.Underlying().(*types.Signature); isSig {
						isFunc := false
						switch f := fun.(type) {
						case *ast.Ident:
							_, isFunc = p.TypesInfo.Uses[f].(*types.Func)
						case *ast.SelectorExpr:
							_, isFunc = p.TypesInfo.Uses[f.Sel].(*types.Func)
						case *ast.IndexExpr, *ast.IndexListExpr:
							isFunc = true // generic instantiation
						}
						if !isFunc {
							fvs[exprText(fun)] = true
						}
					}
				}
			}
		case *ast.ForStmt:
			switch {
			case s.Init != nil || s.Post != nil:
				loops = append(loops, "for3")
			case s.Cond != nil:
				loops = append(loops, "forc")
			default:
				loops = append(loops, "for0")
			}
		case *ast.RangeStmt:
			loops = append(loops, "range")
		case *ast.FuncLit:
			lits++
		}
		return true
	})
	var fvl []string
	for k := range fvs {
		fvl = append(fvl, k)
	}
	sort.Strings(fvl)
	fmt.Fprintf(&b, ";loops=%s;lits=%d;fv=%s", strings.Join(loops, ","), lits, strings.Join(fvl, ","))
	return strings.ReplaceAll(b.String(), "\n", " ")
}

// shapeStale compares the recorded shape with the current one, component by component, and says why the contract can
// no longer be trusted to talk about this body ("" if it can):
//   - receiver / parameter names or types, or result TYPES, differ (clauses name parameters; results are resultN);
//   - the contract has loop clauses and the NUMBER of loops differs (ordinals), or it has `decreases` clauses and a loop
//     changed its form (a termination measure is tied to the loop variable);
//   - a function-value call the body used to make is gone (clauses and externs are keyed on that text);
//   - for a literal `Outer$N`: the number of literals in Outer differs (ordinal).
// Anything else that changed (a loop turned from `for { select }` into `for range`, a literal added, a result given a
// name, a new function-value call) is the kind of change a defect is made of: the obligations are generated and judged.
func shapeStale(ct *Contract, was, now string) string {
	parse := func(s string) map[string]string {
		m := map[string]string{}
		// sig may contain ';' only inside types (it does not); split on the known keys from the right
		for _, k := range []string{";outerlits=", ";fv=", ";lits=", ";loops="} {
			if i := strings.LastIndex(s, k); i >= 0 {
				m[strings.Trim(k, ";=")] = s[i+len(k):]
				s = s[:i]
			}
		}
		m["sig"] = strings.TrimPrefix(s, "sig=")
		return m
	}
	a, b := parse(was), parse(now)
	// signature: receiver+params verbatim, results by type only
	splitSig := func(sg string) (string, string) {
		// the last balanced (...) group is the result tuple
		depth := 0
		for i := len(sg) - 1; i >= 0; i-- {
			switch sg[i] {
			case ')':
				depth++
			case '(':
				depth--
				if depth == 0 {
					return sg[:i], sg[i:]
				}
			}
		}
		return sg, ""
	}
	resTypes := func(r string) string {
		r = strings.TrimSuffix(strings.TrimPrefix(r, "("), ")")
		var out []string
		for _, part := range splitTopLevel(r, ',') {
			part = strings.TrimSpace(part)
			if i := strings.Index(part, " "); i >= 0 && !strings.HasPrefix(part, "func") && !strings.HasPrefix(part, "map[") && !strings.HasPrefix(part, "chan ") && !strings.HasPrefix(part, "<-") && !strings.HasPrefix(part, "struct") && !strings.HasPrefix(part, "interface") {
				part = strings.TrimSpace(part[i+1:])
			}
			out = append(out, part)
		}
		return strings.Join(out, ",")
	}
	ap, ar := splitSig(a["sig"])
	bp, br := splitSig(b["sig"])
	if ap != bp {
		return "receiver or parameters changed"
	}
	if resTypes(ar) != resTypes(br) {
		return "result types changed"
	}
	hasLoopClauses := len(ct.LoopInv) > 0 || len(ct.LoopDec) > 0 || len(ct.LoopMod) > 0
	la, lb := strings.Split(a["loops"], ","), strings.Split(b["loops"], ",")
	if a["loops"] == "" {
		la = nil
	}
	if b["loops"] == "" {
		lb = nil
	}
	if hasLoopClauses && len(la) != len(lb) {
		return "the number of loops changed and the contract has loop clauses (they go by ordinal)"
	}
	if len(ct.LoopDec) > 0 && a["loops"] != b["loops"] {
		return "a loop changed its form and the contract has `decreases` clauses"
	}
	have := map[string]bool{}
	for _, f := range strings.Split(b["fv"], ",") {
		have[f] = true
	}
	for _, f := range strings.Split(a["fv"], ",") {
		if f != "" && !have[f] {
			return "the call through function value `" + f + "` is gone (clauses and externs are keyed on that text)"
		}
	}
	if a["outerlits"] != b["outerlits"] {
		return "the number of function literals in the enclosing function changed (`Outer$N` goes by ordinal)"
	}
	return ""
}

package main

// Property checks: obligations of all functions tagged with a property, known findings, evidence, exit code.

import (
	"regexp"
	"bufio"
	"encoding/json"
	"fmt"
	"os"
	"path/filepath"
	"sort"
	"strconv"
	"strings"
	"time"
)

type PropMeta struct {
	ID          string   `json:"id"`
	Level       string   `json:"level"` // proof | other
	Explanation string   `json:"explanation"`
	Assumptions []string `json:"assumptions"`
	NotDecided  []string `json:"not_decided"`
	Lemmas      []string `json:"lemmas"`
	Bounded     []string `json:"bounded"` // names of bounded stand-in tests (run in thorough, and for unsupported functions)
}

var propLabelRe = regexp.MustCompile(`[:.](C[0-9][0-9])_`)

type KnownFinding struct {
	Property   string `json:"property"`
	Obligation string `json:"obligation"`
	Status     string `json:"status"` // open | fixed
	What       string `json:"what"`
	Input      string `json:"input,omitempty"`
	Commit     string `json:"commit,omitempty"`
}

func loadPropMeta(verif, id string) (*PropMeta, error) {
	data, err := os.ReadFile(filepath.Join(verif, "props", id+".json"))
	if err != nil {
		return nil, err
	}
	var pm PropMeta
	if err := json.Unmarshal(data, &pm); err != nil {
		return nil, err
	}
	return &pm, nil
}

func loadKnownFindings(verif string) ([]KnownFinding, error) {
	f, err := os.Open(filepath.Join(verif, "known_findings.jsonl"))
	if err != nil {
		if os.IsNotExist(err) {
			return nil, nil
		}
		return nil, err
	}
	defer f.Close()
	var out []KnownFinding
	sc := bufio.NewScanner(f)
	sc.Buffer(make([]byte, 1<<20), 1<<20)
	for sc.Scan() {
		l := strings.TrimSpace(sc.Text())
		if l == "" || strings.HasPrefix(l, "#") {
			continue
		}
		var k KnownFinding
		if err := json.Unmarshal([]byte(l), &k); err != nil {
			return nil, fmt.Errorf("known_findings.jsonl: %v", err)
		}
		out = append(out, k)
	}
	return out, nil
}

// contractPackages lists the package directories (relative to the repo) that have a contract file
func contractPackages(verif string) []string {
	var out []string
	root := filepath.Join(verif, "contracts")
	filepath.Walk(root, func(p string, info os.FileInfo, err error) error {
		if err == nil && !info.IsDir() && info.Name() == "zz_contracts_verif.go" {
			rel, _ := filepath.Rel(root, filepath.Dir(p))
			out = append(out, rel)
		}
		return nil
	})
	sort.Strings(out)
	return out
}

// depPackages lists dependency packages that have contracts under /verif/contracts/deps (loaded with syntax)
func depPackages(verif string) []string {
	var out []string
	root := filepath.Join(verif, "contracts", "deps")
	filepath.Walk(root, func(p string, info os.FileInfo, err error) error {
		if err == nil && !info.IsDir() && info.Name() == "contracts.txt" {
			rel, _ := filepath.Rel(root, filepath.Dir(p))
			out = append(out, rel)
		}
		return nil
	})
	sort.Strings(out)
	return out
}

type target struct {
	p     *Pkg
	key   string
	ct    *Contract
	kinds map[string]bool // `props C20:lock`: only obligations of these kinds count for the property (nil: all)
}

func (eng *Engine) targetsFor(prop string) []target {
	var out []target
	var paths []string
	for p := range eng.pkgs {
		paths = append(paths, p)
	}
	sort.Strings(paths)
	for _, path := range paths {
		p := eng.pkgs[path]
		if p.cf == nil {
			continue
		}
		for _, k := range p.cf.Order {
			ct := p.cf.Contracts[k]
			if ct.Extern {
				continue
			}
			for _, pr := range ct.Props {
				if pr == prop {
					out = append(out, target{p, k, ct, nil})
				} else if strings.HasPrefix(pr, prop+":") {
					kinds := map[string]bool{}
					for _, kd := range strings.Split(pr[len(prop)+1:], "+") {
						kinds[kd] = true
					}
					out = append(out, target{p, k, ct, kinds})
				}
			}
		}
	}
	return out
}

type oblSummary struct {
	Name      string
	Instances int
	OK        int
	Backends  map[string]int
	Secs      float64
	Failed    []*OblResult
	Desc      string
	Pos       string
}

func sanitizeFile(s string) string {
	var b strings.Builder
	for _, c := range s {
		switch {
		case c >= 'a' && c <= 'z', c >= 'A' && c <= 'Z', c >= '0' && c <= '9', c == '.', c == '-', c == '_':
			b.WriteRune(c)
		default:
			b.WriteString("_")
		}
	}
	r := b.String()
	if len(r) > 150 {
		r = r[:150]
	}
	return r
}

func cmdCheck(args []string) int {
	if len(args) < 1 {
		usage()
	}
	prop := args[0]
	tier := envOr("VERIF_TIER", "quick")
	for i := 1; i < len(args); i++ {
		if args[i] == "--tier" && i+1 < len(args) {
			tier = args[i+1]
			i++
		}
	}
	if tier != "quick" && tier != "thorough" {
		tier = "quick"
	}
	seed, _ := strconv.Atoi(envOr("VERIF_SEED", "0"))
	t0 := time.Now()
	eng := newEngine()
	pm, err := loadPropMeta(eng.verif, prop)
	if err != nil {
		fmt.Fprintln(os.Stderr, "govc: no property metadata:", err)
		return 2
	}
	kfs, err := loadKnownFindings(eng.verif)
	if err != nil {
		fmt.Fprintln(os.Stderr, "govc:", err)
		return 2
	}
	var pats []string
	for _, rel := range contractPackages(eng.verif) {
		pats = append(pats, "./"+rel)
	}
	pats = append(pats, depPackages(eng.verif)...)
	if err := eng.load(pats, nil); err != nil {
		// the tree does not compile: not a property verdict
		fmt.Fprintln(os.Stderr, "govc: cannot load /repo:", err)
		return 2
	}
	loadSecs := time.Since(t0).Seconds()
	tg := eng.targetsFor(prop)
	if len(tg) == 0 {
		fmt.Fprintln(os.Stderr, "govc: no function under contract is tagged with", prop)
		return 2
	}
	secs := 10
	all := false
	if tier == "thorough" {
		secs = 60
		all = true
	}
	var frs []*FuncResult
	for _, t := range tg {
		fr := eng.verifyFunction(t.p, t.key, t.ct)
		if t.kinds != nil {
			var keep []*Obligation
			for _, o := range fr.Obls {
				if t.kinds[o.Kind] || o.Vacuity {
					keep = append(keep, o)
				}
			}
			fr.Obls = keep
		}
		frs = append(frs, fr)
	}
	work, _ := os.MkdirTemp("", "govc-"+prop+"-")
	defer os.RemoveAll(work)
	res := dischargeAll(work, frs, secs, all, 16)

	// group by obligation name
	sums := map[string]*oblSummary{}
	var order []string
	solverSecs := 0.0
	byBackend := map[string]int{}
	toolErrors := []string{}
	vacuity := map[string][]string{}
	for _, r := range res {
		// a clause label that starts with a property id (`@C04_...`) belongs to that property only, even when the
		// function is tagged with several
		if m := propLabelRe.FindStringSubmatch(r.O.Name); m != nil && m[1] != prop {
			continue
		}
		solverSecs += r.R.Secs
		if r.O.Vacuity {
			vacuity[r.O.Name] = append(vacuity[r.O.Name], r.R.Status)
			continue
		}
		s := sums[r.O.Name]
		if s == nil {
			s = &oblSummary{Name: r.O.Name, Backends: map[string]int{}, Desc: r.O.Desc}
			if r.O.Pos.IsValid() {
				s.Pos = fmt.Sprintf("%s:%d", shortFile(r.O.Pos.Filename), r.O.Pos.Line)
			}
			sums[r.O.Name] = s
			order = append(order, r.O.Name)
		}
		s.Instances++
		s.Secs += r.R.Secs
		if r.R.Status == "unsat" {
			s.OK++
			s.Backends[r.R.Backend]++
			byBackend[r.R.Backend]++
		} else {
			s.Failed = append(s.Failed, r)
		}
		if all {
			// solver agreement: nobody may report sat (ground-truth encoding) where another proved unsat
			sawUnsat, sawSat := false, false
			for _, x := range r.All {
				if x.Status == "unsat" {
					sawUnsat = true
				}
				if x.Status == "sat" && strings.HasSuffix(x.Backend, "/real") {
					sawSat = true
				}
			}
			if sawUnsat && sawSat {
				toolErrors = append(toolErrors, "solver disagreement on "+r.O.Name)
			}
		}
	}
	sort.Strings(order)

	// vacuity: preconditions must be satisfiable; of the reachability canaries that share a name (exit paths of a
	// function, body ends of a loop) at least one must be satisfiable
	vacOK, vacUnknown := 0, 0
	var deadReturns, deadBranches []string
	for name, sts := range vacuity {
		anySat, anyUnknown := false, false
		for _, st := range sts {
			switch st {
			case "sat":
				anySat = true
			case "unsat":
			default:
				anyUnknown = true
			}
		}
		if i := strings.Index(name, "#reach:return@"); i >= 0 {
			if !anySat && !anyUnknown {
				deadReturns = append(deadReturns, name[:i]+" "+name[i+len("#reach:return@"):])
			}
			continue
		}
		if i := strings.Index(name, "#reach:"); i >= 0 {
			if !anySat && !anyUnknown {
				deadBranches = append(deadBranches, name[:i]+" "+strings.Replace(name[i+len("#reach:"):], "@", " branch at ", 1))
			}
			continue
		}
		switch {
		case anySat:
			vacOK++
		case anyUnknown:
			vacUnknown++
		case strings.HasSuffix(name, ".entry"):
			// a loop that the precondition makes unreachable is dead code for this contract, not a contradiction
			vacUnknown++
		case strings.HasSuffix(name, ".body") && !hasStatus(vacuity[strings.TrimSuffix(name, ".body")+".entry"], "sat"):
			// the loop itself is not (known to be) reachable under the precondition: its body need not be either
			vacUnknown++
		default:
			toolErrors = append(toolErrors, "VACUOUS: "+name+" is unsatisfiable (contradictory precondition / invariant / assumption)")
		}
	}

	// unsupported functions
	var degraded []string
	for _, fr := range frs {
		if fr.Unsupported != "" {
			degraded = append(degraded, fr.Key+": "+fr.Unsupported)
		}
	}

	// classify failures against known findings
	isKnown := func(name string) *KnownFinding {
		for i := range kfs {
			if kfs[i].Property == prop && kfs[i].Status == "open" && kfs[i].Obligation == name {
				return &kfs[i]
			}
		}
		return nil
	}
	// contracts whose function no longer exists (renamed / removed): the modular structure the other contracts of that
	// package were written for is gone, so a proof that fails there decides nothing by itself
	orphans := map[string][]string{}
	for _, p := range eng.pkgs {
		if p.cf == nil || !strings.HasPrefix(p.PkgPath, modPath) {
			continue
		}
		for _, k := range p.cf.Order {
			ct := p.cf.Contracts[k]
			if ct.Extern || strings.HasPrefix(k, "$") {
				continue
			}
			outer := k
			if i := strings.LastIndex(k, "$"); i > 0 {
				outer = k[:i]
			}
			if f, _ := p.findFunc(outer); f == nil {
				orphans[p.Types.Name()] = append(orphans[p.Types.Name()], k)
			}
		}
	}
	var violations []string
	var undecided []string
	replayed := map[string]bool{}
	var knownHit []*KnownFinding
	nObl, nDis := 0, 0
	var failedNames []string
	for _, name := range order {
		s := sums[name]
		nObl++
		if len(s.Failed) == 0 {
			nDis++
			continue
		}
		failedNames = append(failedNames, name)
		if s.Failed[0].R.Status == "error" {
			toolErrors = append(toolErrors, "solvers rejected the verification condition of "+name+": "+trunc(s.Failed[0].R.Output, 200))
			continue
		}
		if k := isKnown(name); k != nil {
			knownHit = append(knownHit, k)
			continue
		}
		pkgName := name
		if i := strings.Index(name, "."); i > 0 {
			pkgName = name[:i]
		}
		if len(orphans[pkgName]) > 0 {
			// only a counterexample that replays on the real code makes this a violation
			os.MkdirAll(filepath.Join(outDir(eng), "replays", prop), 0o755)
			path := filepath.Join(outDir(eng), "replays", prop, sanitizeFile(name)+".json")
			if writeReplay(eng, prop, path, s, work) {
				replayed[name] = true
				violations = append(violations, name)
			} else {
				os.Remove(path)
				undecided = append(undecided, name)
			}
			continue
		}
		violations = append(violations, name)
	}
	for _, u := range undecided {
		pkgName := u[:strings.Index(u, ".")]
		degraded = append(degraded, fmt.Sprintf("%s: not discharged, and package %s has contracts for functions that no longer exist (%s): the contracts are stale, the failed proof decides nothing",
			u, pkgName, strings.Join(orphans[pkgName], ", ")))
	}

	// bounded stand-ins: for unsupported functions (always) and in the thorough tier
	var boundedNotes []string
	boundedViol := []string{}
	if len(degraded) > 0 || tier == "thorough" {
		for _, b := range pm.Bounded {
			note, failing := runBounded(eng, prop, b, tier, seed)
			boundedNotes = append(boundedNotes, note)
			if failing != "" {
				boundedViol = append(boundedViol, failing)
			}
		}
	}
	if len(degraded) > 0 {
		// a function under contract could not be verified (stale contract / outside the subset): fall back on the
		// property's corpus of demonstration tests as well
		note, failing := runBounded(eng, prop, "behaviour_corpus", tier, seed)
		boundedNotes = append(boundedNotes, note)
		if failing != "" {
			boundedViol = append(boundedViol, failing)
		}
	}

	// lemma proofs (Lean) in the thorough tier
	var lemmaNotes []string
	if tier == "thorough" {
		for _, l := range pm.Lemmas {
			ok, note := checkLemma(eng, l)
			lemmaNotes = append(lemmaNotes, note)
			if !ok {
				toolErrors = append(toolErrors, "lemma "+l+" not proved: "+note)
			}
		}
	}

	// replay files and report lines
	exit := 0
	replayDir := filepath.Join(outDir(eng), "replays", prop)
	for _, name := range violations {
		os.MkdirAll(replayDir, 0o755)
		s := sums[name]
		path := filepath.Join(replayDir, sanitizeFile(name)+".json")
		found := writeReplay(eng, prop, path, s, work)
		line := fmt.Sprintf("VIOLATION property=%s replay=%s", prop, path)
		if !found {
			line += " no-failing-input-found"
		}
		fmt.Println(line)
		fmt.Printf("  obligation %s failed (%s) at %s: %s\n", name, s.Failed[0].R.Status, s.Pos, s.Desc)
		exit = 1
	}
	for _, bv := range boundedViol {
		fmt.Printf("VIOLATION property=%s replay=%s\n", prop, bv)
		exit = 1
	}
	var knownNotes []string
	for _, k := range knownHit {
		fmt.Printf("KNOWN-FINDING: property=%s %s (%s)\n", prop, k.What, k.Obligation)
		if tier == "thorough" {
			// re-confirm the recorded finding on the real code
			hit, out := replayOnRealCode(eng, prop, k.Obligation, nil, map[string]any{})
			note := fmt.Sprintf("%s: replay on the real code reproduces=%v", k.Obligation, hit)
			if !hit {
				note += " (" + trunc(out, 300) + ")"
			}
			knownNotes = append(knownNotes, note)
			fmt.Println("  " + note)
		}
	}
	for _, d := range degraded {
		fmt.Printf("DEGRADED: %s -- not counted as proved; bounded stand-in used\n", d)
	}
	sort.Strings(deadBranches)
	for _, d := range deadBranches {
		fmt.Printf("NOTE: no path enters the %s under the contract\n", d)
	}
	sort.Strings(deadReturns)
	for _, d := range deadReturns {
		fmt.Printf("NOTE: no path reaches the return at %s under the contract (what the contract says about that exit is vacuous)\n", d)
	}
	if len(toolErrors) > 0 {
		for _, e := range toolErrors {
			fmt.Println("TOOL-ERROR:", e)
		}
		if exit == 0 {
			exit = 2
		}
	}

	// evidence
	level := pm.Level
	if level == "" {
		level = "proof"
	}
	if (nDis != nObl || len(degraded) > 0) && level == "proof" {
		level = "other"
	}
	var fnames []string
	var warnings []string
	trustedSet := map[string]bool{}
	var assumedPre []string
	paths := 0
	for _, fr := range frs {
		fnames = append(fnames, fr.Key)
		paths += fr.Paths
		for _, w := range fr.Warnings {
			warnings = append(warnings, fr.Key+": "+w)
		}
		for _, t := range fr.Trusted {
			trustedSet[t] = true
		}
		for _, rq := range fr.Requires {
			assumedPre = append(assumedPre, fr.Key+": "+rq)
		}
	}
	var trustedList []string
	for t := range trustedSet {
		trustedList = append(trustedList, t)
	}
	sort.Strings(trustedList)
	type slow struct {
		n string
		s float64
	}
	var sl []slow
	for _, n := range order {
		sl = append(sl, slow{n, sums[n].Secs})
	}
	sort.Slice(sl, func(i, j int) bool { return sl[i].s > sl[j].s })
	var slowest []string
	for i := 0; i < len(sl) && i < 5; i++ {
		slowest = append(slowest, fmt.Sprintf("%s %.2fs", sl[i].n, sl[i].s))
	}
	var samples []string
	for i, n := range order {
		if i%max(1, len(order)/6) == 0 && len(samples) < 8 {
			samples = append(samples, n+"  ::  "+sums[n].Desc)
		}
	}
	cov := map[string]any{
		"obligations":              nObl,
		"discharged":               nDis,
		"obligation_instances":     len(res),
		"checker_cmd":              fmt.Sprintf("bin/govc check %s --tier %s  (VCs generated from /repo working tree; z3 5.1.0 | cvc5 1.0.3 | z3 4.8.12 raced, first unsat wins, %ds; symbolic-modulus goals raced in two encodings)", prop, tier, secs),
		"trusted_base":             append([]string{"A-gen: govc's Go semantics (AST symbolic execution, Burstall-Bornat heap, mathematical integers + overflow obligations)", "A-smt: soundness of z3 / cvc5", "A-64: int is 64 bit"}, pm.Assumptions...),
		"functions_under_contract": fnames,
		"exit_paths":               paths,
		"by_backend":               byBackend,
		"solver_time_s":            round2(solverSecs),
		"load_s":                   round2(loadSecs),
		"slowest":                  slowest,
		"vacuity":                  map[string]int{"requires_sat": vacOK, "inconclusive": vacUnknown},
		"unreachable_returns":      deadReturns,
		"unreachable_branches":     deadBranches,
		"degraded_functions":       degraded,
		"failed_obligations":       failedNames,
		"known_findings_hit":       len(knownHit),
		"known_findings_replayed":  knownNotes,
		"unmodelled":               warnings,
		"trusted_functions":        trustedList,
		"assumed_preconditions":    assumedPre,
		"not_decided":              pm.NotDecided,
		"samples":                  samples,
		"contracts_from":           eng.contractSources(),
		"bounded":                  boundedNotes,
		"lemmas":                   lemmaNotes,
		"explanation":              pm.Explanation,
	}
	ev := map[string]any{
		"property_id": prop, "tier": tier, "seed": seed, "level": level, "coverage": cov,
		"assumptions": pm.Assumptions, "wall_s": round2(time.Since(t0).Seconds()), "violations": len(violations) + len(boundedViol),
	}
	os.MkdirAll(filepath.Join(outDir(eng), "evidence"), 0o755)
	data, _ := json.MarshalIndent(ev, "", " ")
	os.WriteFile(filepath.Join(outDir(eng), "evidence", prop+".json"), data, 0o644)
	fmt.Printf("%s %s: obligations=%d discharged=%d known-findings=%d violations=%d degraded=%d wall=%.1fs\n", prop, tier, nObl, nDis, len(knownHit), len(violations)+len(boundedViol), len(degraded), time.Since(t0).Seconds())
	return exit
}

func round2(f float64) float64 { return float64(int(f*100+0.5)) / 100 }

func (eng *Engine) contractSources() []string {
	var out []string
	for _, p := range eng.pkgs {
		if p.cfSource != "" {
			out = append(out, p.cfSource)
		}
	}
	sort.Strings(out)
	return out
}

// writeReplay records a failed obligation; returns true when a failing input was reproduced on the real code.
func writeReplay(eng *Engine, prop, path string, s *oblSummary, work string) bool {
	f := s.Failed[0]
	rec := map[string]any{
		"property":      prop,
		"obligation":    s.Name,
		"description":   s.Desc,
		"position":      s.Pos,
		"solver_status": f.R.Status,
		"solver":        f.R.Backend,
		"solver_output": f.R.Output,
		"instances":     s.Instances,
		"failed":        len(s.Failed),
	}
	// keep the SMT query next to the replay record
	if data, err := os.ReadFile(f.R.File); err == nil {
		q := strings.TrimSuffix(path, ".json") + ".smt2"
		os.WriteFile(q, data, 0o644)
		rec["query"] = q
	}
	model, inputs := findModel(eng, f, work)
	if model != "" {
		rec["model"] = model
	}
	found := false
	if inputs != nil {
		rec["inputs"] = inputs
		ok, out := replayOnRealCode(eng, prop, s.Name, f, inputs)
		rec["replay_output"] = out
		rec["replayed_on_real_code"] = ok
		found = ok
	}
	if !found {
		rec["note"] = "no-failing-input-found: the obligation is not discharged; no concrete input was reproduced on the real code"
	}
	data, _ := json.MarshalIndent(rec, "", " ")
	os.WriteFile(path, data, 0o644)
	return found
}

func cmdReplay(args []string) int {
	if len(args) < 1 {
		usage()
	}
	data, err := os.ReadFile(args[0])
	if err != nil {
		fmt.Fprintln(os.Stderr, err)
		return 2
	}
	var rec map[string]any
	if err := json.Unmarshal(data, &rec); err != nil {
		fmt.Fprintln(os.Stderr, err)
		return 2
	}
	fmt.Printf("replay of %v: obligation %v\n  %v\n", rec["property"], rec["obligation"], rec["description"])
	prop, _ := rec["property"].(string)
	// re-run the property check; the obligation must fail again
	code := cmdCheck([]string{prop})
	return code
}

func hasStatus(sts []string, want string) bool {
	for _, s := range sts {
		if s == want {
			return true
		}
	}
	return false
}

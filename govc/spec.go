package main

// Contract language: lexer, parser and contract-file reader.
// Contracts are Gobra-style "//@" comment lines kept in comment-only files
// (zz_contracts_verif.go) next to the code they talk about.

import (
	"fmt"
	"os"
	"strconv"
	"strings"
	"unicode"
)

// ---------- spec expression AST ----------

type SExpr interface{}

type SIdent struct{ Name string }
type SNum struct{ V string }
type SStr struct{ V string }
type SBin struct {
	Op   string
	X, Y SExpr
}
type SUn struct {
	Op string
	X  SExpr
}
type SSel struct {
	X    SExpr
	Name string
}
type SIndex struct{ X, I SExpr }
type SCall struct {
	Fun  SExpr
	Args []SExpr
}
type SBind struct{ Name, Type string }
type SQuant struct {
	Kind string // forall | exists
	Vars []SBind
	Trig []SExpr // optional trigger terms: forall x T :: { t1, t2 } body
	Body SExpr
}
type SLet struct {
	Name      string
	Val, Body SExpr
}
type SField struct {
	Name string
	Val  SExpr
}
type SLit struct {
	Type   string
	Fields []SField
}
type SOld struct{ X SExpr }

// ---------- lexer ----------

type tok struct {
	k string // id num str op eof
	v string
}

func lexSpec(s string) ([]tok, error) {
	var out []tok
	i := 0
	for i < len(s) {
		c := s[i]
		switch {
		case c == ' ' || c == '\t' || c == '\n' || c == '\r':
			i++
		case unicode.IsLetter(rune(c)) || c == '_' || c == '$':
			j := i + 1
			for j < len(s) && (unicode.IsLetter(rune(s[j])) || unicode.IsDigit(rune(s[j])) || s[j] == '_' || s[j] == '$') {
				j++
			}
			out = append(out, tok{"id", s[i:j]})
			i = j
		case unicode.IsDigit(rune(c)):
			j := i + 1
			for j < len(s) && (unicode.IsDigit(rune(s[j])) || s[j] == '_' || s[j] == 'x' || (s[j] >= 'a' && s[j] <= 'f') || (s[j] >= 'A' && s[j] <= 'F')) {
				j++
			}
			out = append(out, tok{"num", strings.ReplaceAll(s[i:j], "_", "")})
			i = j
		case c == '"':
			j := i + 1
			for j < len(s) && s[j] != '"' {
				if s[j] == '\\' {
					j++
				}
				j++
			}
			if j >= len(s) {
				return nil, fmt.Errorf("unterminated string in %q", s)
			}
			u, err := strconv.Unquote(s[i : j+1])
			if err != nil {
				return nil, err
			}
			out = append(out, tok{"str", u})
			i = j + 1
		default:
			ops := []string{"<==>", "==>", "::", "&&", "||", "==", "!=", "<=", ">=", "<<", ">>"}
			matched := false
			for _, o := range ops {
				if strings.HasPrefix(s[i:], o) {
					out = append(out, tok{"op", o})
					i += len(o)
					matched = true
					break
				}
			}
			if !matched {
				out = append(out, tok{"op", string(c)})
				i++
			}
		}
	}
	out = append(out, tok{"eof", ""})
	return out, nil
}

// ---------- parser ----------

type sparser struct {
	t     []tok
	p     int
	src   string
	inLet int
}

func (p *sparser) peek() tok { return p.t[p.p] }
func (p *sparser) next() tok { t := p.t[p.p]; p.p++; return t }
func (p *sparser) isOp(o string) bool {
	return p.t[p.p].k == "op" && p.t[p.p].v == o
}
func (p *sparser) isID(o string) bool {
	return p.t[p.p].k == "id" && p.t[p.p].v == o
}
func (p *sparser) expectOp(o string) {
	if !p.isOp(o) {
		panic(fmt.Sprintf("spec: expected %q at token %d (%v) in %q", o, p.p, p.peek(), p.src))
	}
	p.p++
}

func parseSpecExpr(s string) (e SExpr, err error) {
	toks, err := lexSpec(s)
	if err != nil {
		return nil, err
	}
	p := &sparser{t: toks, src: s}
	defer func() {
		if r := recover(); r != nil {
			err = fmt.Errorf("%v", r)
		}
	}()
	e = p.expr()
	if p.peek().k != "eof" {
		panic(fmt.Sprintf("spec: trailing tokens at %d (%v) in %q", p.p, p.peek(), s))
	}
	return e, nil
}

func (p *sparser) typeName() string {
	// [*] ident [. ident] | []T | map[K]V
	var b strings.Builder
	for p.isOp("*") || p.isOp("[") {
		if p.isOp("*") {
			p.next()
			b.WriteString("*")
		} else {
			p.next()
			p.expectOp("]")
			b.WriteString("[]")
		}
	}
	t := p.next()
	if t.k != "id" {
		panic(fmt.Sprintf("spec: type name expected, got %v in %q", t, p.src))
	}
	b.WriteString(t.v)
	if p.isOp(".") {
		p.next()
		b.WriteString("." + p.next().v)
	}
	return b.String()
}

func (p *sparser) expr() SExpr {
	if p.isID("forall") || p.isID("exists") {
		kind := p.next().v
		var vars []SBind
		for {
			n := p.next()
			ty := p.typeName()
			vars = append(vars, SBind{n.v, ty})
			if p.isOp(",") {
				p.next()
				continue
			}
			break
		}
		p.expectOp("::")
		var trig []SExpr
		if p.isOp("{") {
			p.next()
			for !p.isOp("}") {
				trig = append(trig, p.impl())
				if p.isOp(",") {
					p.next()
				}
			}
			p.expectOp("}")
		}
		body := p.expr()
		return &SQuant{Kind: kind, Vars: vars, Trig: trig, Body: body}
	}
	if p.isID("let") {
		p.next()
		n := p.next()
		p.expectOp("=")
		p.inLet++
		v := p.impl()
		p.inLet--
		if !p.isID("in") {
			panic("spec: 'in' expected after let in " + p.src)
		}
		p.next()
		b := p.expr()
		return &SLet{Name: n.v, Val: v, Body: b}
	}
	return p.impl()
}

func (p *sparser) impl() SExpr {
	l := p.iff()
	if p.isOp("==>") {
		p.next()
		var r SExpr
		if p.isID("forall") || p.isID("exists") || p.isID("let") {
			r = p.expr()
		} else {
			r = p.impl()
		}
		return &SBin{"==>", l, r}
	}
	return l
}
func (p *sparser) iff() SExpr {
	l := p.or()
	for p.isOp("<==>") {
		p.next()
		r := p.or()
		l = &SBin{"<==>", l, r}
	}
	return l
}
func (p *sparser) or() SExpr {
	l := p.and()
	for p.isOp("||") {
		p.next()
		r := p.and()
		l = &SBin{"||", l, r}
	}
	return l
}
func (p *sparser) and() SExpr {
	l := p.cmp()
	for p.isOp("&&") {
		p.next()
		var r SExpr
		if p.isID("forall") || p.isID("exists") || p.isID("let") {
			r = p.expr()
		} else {
			r = p.cmp()
		}
		l = &SBin{"&&", l, r}
	}
	return l
}
func (p *sparser) cmp() SExpr {
	l := p.add()
	for {
		t := p.peek()
		if t.k == "op" && (t.v == "==" || t.v == "!=" || t.v == "<" || t.v == "<=" || t.v == ">" || t.v == ">=") {
			p.next()
			r := p.add()
			l = &SBin{t.v, l, r}
			continue
		}
		if t.k == "id" && t.v == "in" {
			// "in" is also the keyword of let; only treat as operator when a let is not pending:
			// the let parser consumes its own "in" because Val is parsed with impl(), which stops
			// before "in" only if we do not take it here. We disambiguate: `x in m` requires the
			// left operand to be followed directly by `in` and we are not inside a let value.
			if p.inLet > 0 {
				break
			}
			p.next()
			r := p.add()
			l = &SBin{"in", l, r}
			continue
		}
		break
	}
	return l
}
func (p *sparser) add() SExpr {
	l := p.mul()
	for p.isOp("+") || p.isOp("-") {
		o := p.next().v
		r := p.mul()
		l = &SBin{o, l, r}
	}
	return l
}
func (p *sparser) mul() SExpr {
	l := p.unary()
	for p.isOp("*") || p.isOp("/") || p.isOp("%") {
		o := p.next().v
		r := p.unary()
		l = &SBin{o, l, r}
	}
	return l
}
func (p *sparser) unary() SExpr {
	if p.isOp("!") || p.isOp("-") {
		o := p.next().v
		return &SUn{o, p.unary()}
	}
	return p.postfix()
}
func (p *sparser) postfix() SExpr {
	e := p.primary()
	for {
		switch {
		case p.isOp("."):
			p.next()
			n := p.next()
			e = &SSel{e, n.v}
		case p.isOp("["):
			p.next()
			i := p.expr()
			p.expectOp("]")
			e = &SIndex{e, i}
		case p.isOp("("):
			p.next()
			var args []SExpr
			for !p.isOp(")") {
				args = append(args, p.expr())
				if p.isOp(",") {
					p.next()
				}
			}
			p.expectOp(")")
			if id, ok := e.(*SIdent); ok && id.Name == "old" && len(args) == 1 {
				e = &SOld{args[0]}
			} else {
				e = &SCall{e, args}
			}
		case p.isOp("{"):
			// composite literal: only after a type-looking expression (ident or pkg.ident)
			ty := ""
			switch t := e.(type) {
			case *SIdent:
				ty = t.Name
			case *SSel:
				if id, ok := t.X.(*SIdent); ok {
					ty = id.Name + "." + t.Name
				}
			}
			if ty == "" {
				return e
			}
			p.next()
			var fs []SField
			for !p.isOp("}") {
				n := p.next()
				p.expectOp(":")
				v := p.expr()
				fs = append(fs, SField{n.v, v})
				if p.isOp(",") {
					p.next()
				}
			}
			p.expectOp("}")
			e = &SLit{Type: ty, Fields: fs}
		default:
			return e
		}
	}
}
func (p *sparser) primary() SExpr {
	if p.isID("forall") || p.isID("exists") || p.isID("let") {
		return p.expr()
	}
	t := p.next()
	switch t.k {
	case "id":
		return &SIdent{t.v}
	case "num":
		return &SNum{t.v}
	case "str":
		return &SStr{t.v}
	case "op":
		if t.v == "(" {
			// (*T)(x) style not supported; plain parenthesised expression
			e := p.expr()
			p.expectOp(")")
			return e
		}
	}
	panic(fmt.Sprintf("spec: unexpected token %v in %q", t, p.src))
}

// ---------- contract file ----------

type Clause struct {
	Label string
	Text  string
	E     SExpr
}

type SpecFn struct {
	Key     string // "(T).name" or "name"
	Name    string
	RecvN   string // receiver variable name ("" if none)
	RecvT   string // receiver type text
	Params  []SBind
	Result  string // result type text ("bool" for pred)
	Body    SExpr  // nil for uninterpreted
	BodyTxt string
	Rec     bool
	Pkg     string // package path the declaration came from
}

type Contract struct {
	Key        string
	Pkg        string // package path owning the contract file
	Extern     bool
	Pure       bool // extern pure: uninterpreted function of its arguments
	Quiet      bool // no effect on tracked state, unconstrained results
	Trusted    string
	ParamNames []string // optional explicit parameter names (receiver first if method)
	Requires   []Clause
	Ensures    []Clause
	Assigns    []string // raw assigns items; nil = unspecified
	HasAssigns bool
	LoopInv    map[int][]Clause
	LoopDec    map[int]Clause
	LoopMod    map[int][]string
	PanicsOK   bool
	PureFuncs  []string // function-valued parameters / variables assumed pure (`pure f, g`)
	Counts     []string // callee names whose calls are counted ($calls(name))
	Wakeup     string // every blocking channel operation of the body must be a select with a receive case on this expression
	CheckGo    bool   // spawned calls are executed on a forked state for their obligations
	ArithWrap  bool   // integer arithmetic wraps around (exact two's complement) instead of raising overflow obligations
	FirstDefer string // the body must start with `defer <this function>(...)`
	StorePre   map[string][]Clause // obligations at every store into a map held in a field of that name ($key, $map, $present, $value)
	DeletePre  map[string][]Clause // obligations at every delete from a map held in a field of that name ($key, $map)
	SendPre    map[string][]Clause // obligations at every send on a channel expression of that text ($value = the value sent)
	WritePre   map[string][]Clause // obligations at every assignment to a field of that name
	CallPre    map[string][]Clause // emit-preconditions: callee name[.ordinal] -> clauses over the caller's variables and the callee's parameters
	Props      []string
	Shape      string // signature, loop forms and number of literals of the body the contract was written for (bin/shapes)
	OptionalSites map[string]bool // emit-clause keys that need not meet a site
}

type Guard struct {
	Pkg    string
	Type   string // struct type name
	Mutex  string // field name of the mutex
	Fields []string
	Inv    []Clause // lockinv, receiver named "self"
	Rely   []Clause // two-state, old() = before the acquisition
}

type ChanInv struct {
	Pkg    string
	Elem   string // element type text
	Var    string
	Inv    Clause
	Assume bool // chanassume: assumed at receives only (environment assumption), not asserted at sends
}

type GhostField struct {
	Pkg, Type, Name, Ty string
}

type Axiom struct {
	Pkg string
	C   Clause
}

type ContractFile struct {
	Pkg       string
	Path      string
	Contracts map[string]*Contract
	Order     []string
	SpecFns   map[string]*SpecFn
	Guards    []*Guard
	ChanInvs  []*ChanInv
	Ghosts    []*GhostField
	Axioms    []*Axiom
}

var clauseKW = map[string]bool{"contract": true, "extern": true, "requires": true, "ensures": true, "assigns": true,
	"loop": true, "pred": true, "func": true, "ufunc": true, "axiom": true, "guards": true, "lockinv": true, "rely": true,
	"chaninv": true, "chanassume": true, "ghost": true, "trusted": true, "panics": true, "props": true, "quiet": true, "pure": true, "firstdefer": true, "checkgo": true, "wakeup": true, "counts": true, "callpre": true, "arith": true, "writepre": true, "sendpre": true, "storepre": true, "deletepre": true, "shape": true}

func firstWord(s string) string {
	s = strings.TrimSpace(s)
	for i, c := range s {
		if !(unicode.IsLetter(c)) {
			return s[:i]
		}
	}
	return s
}

func mkClause(txt string) (Clause, error) {
	txt = strings.TrimSpace(txt)
	c := Clause{Text: txt}
	if strings.HasPrefix(txt, "@") {
		i := strings.Index(txt, ":")
		if i < 0 {
			return c, fmt.Errorf("label without ':' in %q", txt)
		}
		c.Label = strings.TrimSpace(txt[1:i])
		txt = strings.TrimSpace(txt[i+1:])
		c.Text = txt
	}
	e, err := parseSpecExpr(txt)
	if err != nil {
		return c, err
	}
	c.E = e
	return c, nil
}

func splitTopLevel(s string, sep byte) []string {
	var out []string
	d, st := 0, 0
	for i := 0; i < len(s); i++ {
		switch s[i] {
		case '(', '[', '{':
			d++
		case ')', ']', '}':
			d--
		}
		if d == 0 && s[i] == sep {
			out = append(out, strings.TrimSpace(s[st:i]))
			st = i + 1
		}
	}
	last := strings.TrimSpace(s[st:])
	if last != "" {
		out = append(out, last)
	}
	return out
}

func matchParen(s string, i int) int {
	d := 0
	for j := i; j < len(s); j++ {
		if s[j] == '(' {
			d++
		} else if s[j] == ')' {
			d--
			if d == 0 {
				return j
			}
		}
	}
	return -1
}

// parseKeyAndParams parses "(*T).M(a, b)" / "F(a)" / "pkg.F" into key and optional param names.
func parseKeyAndParams(s string) (string, []string) {
	s = strings.TrimSpace(s)
	key := s
	var ps []string
	// trailing (names) — but a leading "(" belongs to the receiver
	if strings.HasSuffix(s, ")") {
		// find the matching "(" of the last ")"
		d := 0
		for j := len(s) - 1; j >= 0; j-- {
			if s[j] == ')' {
				d++
			} else if s[j] == '(' {
				d--
				if d == 0 {
					if j > 0 {
						key = strings.TrimSpace(s[:j])
						inner := s[j+1 : len(s)-1]
						ps = []string{}
						for _, f := range splitTopLevel(inner, ',') {
							w := strings.Fields(f)
							if len(w) > 0 {
								ps = append(ps, w[0])
							}
						}
					}
					break
				}
			}
		}
	}
	return key, ps
}

func parseBinds(s string) []SBind {
	var out []SBind
	for _, f := range splitTopLevel(s, ',') {
		w := strings.Fields(f)
		if len(w) == 2 {
			out = append(out, SBind{w[0], w[1]})
		} else if len(w) == 1 {
			out = append(out, SBind{w[0], "int"})
		}
	}
	return out
}

func readContractFile(path, pkg string) (*ContractFile, error) {
	data, err := os.ReadFile(path)
	if err != nil {
		return nil, err
	}
	return parseContractText(string(data), path, pkg)
}

func parseContractText(data, path, pkg string) (*ContractFile, error) {
	cf := &ContractFile{Pkg: pkg, Path: path, Contracts: map[string]*Contract{}, SpecFns: map[string]*SpecFn{}}
	// gather logical clauses
	var clauses []string
	var lineNo []int
	for n, raw := range strings.Split(data, "\n") {
		l := strings.TrimSpace(raw)
		if !strings.HasPrefix(l, "//@") {
			continue
		}
		l = strings.TrimSpace(l[3:])
		if l == "" {
			continue
		}
		if i := strings.Index(l, " //"); i >= 0 && !strings.Contains(l[:i], "\"") { // trailing comment
			l = strings.TrimSpace(l[:i])
		}
		if strings.HasPrefix(l, "//") || strings.HasPrefix(l, "#") {
			continue
		}
		if clauseKW[firstWord(l)] {
			clauses = append(clauses, l)
			lineNo = append(lineNo, n+1)
		} else if len(clauses) > 0 {
			clauses[len(clauses)-1] += " " + l
		} else {
			return nil, fmt.Errorf("%s:%d: continuation without clause", path, n+1)
		}
	}
	var cur *Contract
	var curGuard *Guard
	fail := func(i int, err error) error { return fmt.Errorf("%s:%d: %v (clause %q)", path, lineNo[i], err, clauses[i]) }
	for i, l := range clauses {
		kw := firstWord(l)
		rest := strings.TrimSpace(l[len(kw):])
		switch kw {
		case "contract", "extern":
			c := &Contract{Pkg: pkg, LoopInv: map[int][]Clause{}, LoopDec: map[int]Clause{}, LoopMod: map[int][]string{}}
			if kw == "extern" {
				c.Extern = true
			}
			{
				for {
					if strings.HasPrefix(rest, "pure ") {
						c.Pure = true
						rest = strings.TrimSpace(rest[5:])
					} else if strings.HasPrefix(rest, "quiet ") {
						c.Quiet = true
						rest = strings.TrimSpace(rest[6:])
					} else {
						break
					}
				}
			}
			c.Key, c.ParamNames = parseKeyAndParams(rest)
			cf.Contracts[c.Key] = c
			cf.Order = append(cf.Order, c.Key)
			cur = c
			curGuard = nil
		case "requires", "ensures":
			if cur == nil {
				return nil, fail(i, fmt.Errorf("clause outside contract"))
			}
			c, err := mkClause(rest)
			if err != nil {
				return nil, fail(i, err)
			}
			if kw == "requires" {
				cur.Requires = append(cur.Requires, c)
			} else {
				cur.Ensures = append(cur.Ensures, c)
			}
		case "assigns":
			if cur == nil {
				return nil, fail(i, fmt.Errorf("assigns outside contract"))
			}
			cur.HasAssigns = true
			if rest != "nothing" {
				cur.Assigns = append(cur.Assigns, splitTopLevel(rest, ',')...)
			}
		case "trusted":
			if cur != nil {
				cur.Trusted = rest
			}
		case "panics":
			if cur != nil {
				cur.PanicsOK = true
			}
		case "firstdefer":
			if cur != nil {
				cur.FirstDefer = rest
			}
		case "shape":
			if cur != nil {
				cur.Shape = strings.TrimSpace(rest)
			}
		case "counts":
			if cur != nil {
				cur.Counts = append(cur.Counts, strings.Fields(strings.ReplaceAll(rest, ",", " "))...)
			}
		case "wakeup":
			if cur != nil {
				cur.Wakeup = strings.TrimSpace(rest)
			}
		case "checkgo":
			if cur != nil {
				cur.CheckGo = true
			}
		case "arith":
			if cur != nil && rest == "wrap" {
				cur.ArithWrap = true
			}
		case "pure":
			if cur != nil {
				cur.PureFuncs = append(cur.PureFuncs, strings.Fields(strings.ReplaceAll(rest, ",", " "))...)
			}
		case "deletepre":
			if cur == nil {
				return nil, fail(i, fmt.Errorf("deletepre outside contract"))
			}
			ci := strings.Index(rest, ":")
			if ci < 0 {
				return nil, fail(i, fmt.Errorf("deletepre needs ':'"))
			}
			field := strings.TrimSpace(rest[:ci])
			c, err := mkClause(rest[ci+1:])
			if err != nil {
				return nil, fail(i, err)
			}
			if cur.DeletePre == nil {
				cur.DeletePre = map[string][]Clause{}
			}
			cur.DeletePre[field] = append(cur.DeletePre[field], c)
		case "storepre":
			if cur == nil {
				return nil, fail(i, fmt.Errorf("storepre outside contract"))
			}
			ci := strings.Index(rest, ":")
			if ci < 0 {
				return nil, fail(i, fmt.Errorf("storepre needs ':'"))
			}
			field := strings.TrimSpace(rest[:ci])
			c, err := mkClause(rest[ci+1:])
			if err != nil {
				return nil, fail(i, err)
			}
			if cur.StorePre == nil {
				cur.StorePre = map[string][]Clause{}
			}
			cur.StorePre[field] = append(cur.StorePre[field], c)
		case "sendpre":
			if cur == nil {
				return nil, fail(i, fmt.Errorf("sendpre outside contract"))
			}
			ci := strings.Index(rest, ":")
			if ci < 0 {
				return nil, fail(i, fmt.Errorf("sendpre needs ':'"))
			}
			chText := strings.TrimSpace(rest[:ci])
			c, err := mkClause(rest[ci+1:])
			if err != nil {
				return nil, fail(i, err)
			}
			if cur.SendPre == nil {
				cur.SendPre = map[string][]Clause{}
			}
			cur.SendPre[chText] = append(cur.SendPre[chText], c)
		case "writepre":
			if cur == nil {
				return nil, fail(i, fmt.Errorf("writepre outside contract"))
			}
			ci := strings.Index(rest, ":")
			if ci < 0 {
				return nil, fail(i, fmt.Errorf("writepre needs ':'"))
			}
			field := strings.TrimSpace(rest[:ci])
			c, err := mkClause(rest[ci+1:])
			if err != nil {
				return nil, fail(i, err)
			}
			if cur.WritePre == nil {
				cur.WritePre = map[string][]Clause{}
			}
			cur.WritePre[field] = append(cur.WritePre[field], c)
		case "callpre":
			// callpre callee[.n]: [@label:] expr
			if cur == nil {
				return nil, fail(i, fmt.Errorf("callpre outside contract"))
			}
			ci := strings.Index(rest, ":")
			if ci < 0 {
				return nil, fail(i, fmt.Errorf("callpre needs ':'"))
			}
			callee := strings.TrimSpace(rest[:ci])
			c, err := mkClause(rest[ci+1:])
			if err != nil {
				return nil, fail(i, err)
			}
			if cur.CallPre == nil {
				cur.CallPre = map[string][]Clause{}
			}
			// `callpre f?: P` - "if f is ever called, P": a restriction on a call the body need not contain (it is exempt
			// from the stale-clause check)
			if strings.HasSuffix(callee, "?") {
				callee = strings.TrimSpace(strings.TrimSuffix(callee, "?"))
				if cur.OptionalSites == nil {
					cur.OptionalSites = map[string]bool{}
				}
				cur.OptionalSites["callpre "+callee] = true
			}
			cur.CallPre[callee] = append(cur.CallPre[callee], c)
		case "props":
			if cur != nil {
				cur.Props = append(cur.Props, strings.Fields(strings.ReplaceAll(rest, ",", " "))...)
			}
		case "loop":
			if cur == nil {
				return nil, fail(i, fmt.Errorf("loop outside contract"))
			}
			w := strings.Fields(rest)
			if len(w) < 3 {
				return nil, fail(i, fmt.Errorf("loop clause too short"))
			}
			n, err := strconv.Atoi(w[0])
			if err != nil {
				return nil, fail(i, err)
			}
			body := strings.TrimSpace(rest[strings.Index(rest, w[1])+len(w[1]):])
			switch w[1] {
			case "invariant":
				c, err := mkClause(body)
				if err != nil {
					return nil, fail(i, err)
				}
				cur.LoopInv[n] = append(cur.LoopInv[n], c)
			case "decreases":
				c, err := mkClause(body)
				if err != nil {
					return nil, fail(i, err)
				}
				cur.LoopDec[n] = c
			case "modifies":
				cur.LoopMod[n] = append(cur.LoopMod[n], splitTopLevel(body, ',')...)
			default:
				return nil, fail(i, fmt.Errorf("unknown loop clause %q", w[1]))
			}
		case "pred", "func", "ufunc":
			eq := -1
			if kw != "ufunc" {
				// find top-level " = "
				d := 0
				for j := 0; j+2 < len(rest); j++ {
					switch rest[j] {
					case '(', '[', '{':
						d++
					case ')', ']', '}':
						d--
					}
					if d == 0 && rest[j] == ' ' && rest[j+1] == '=' && rest[j+2] == ' ' {
						eq = j
						break
					}
				}
				if eq < 0 {
					return nil, fail(i, fmt.Errorf("definition without ' = '"))
				}
			}
			head := rest
			body := ""
			if eq >= 0 {
				head, body = strings.TrimSpace(rest[:eq]), strings.TrimSpace(rest[eq+3:])
			}
			sf := &SpecFn{Pkg: pkg, Result: "bool"}
			if strings.HasPrefix(head, "rec ") {
				sf.Rec = true
				head = strings.TrimSpace(head[4:])
			}
			if strings.HasPrefix(head, "(") {
				rp := matchParen(head, 0)
				w := strings.Fields(head[1:rp])
				if len(w) != 2 {
					return nil, fail(i, fmt.Errorf("receiver must be '(name Type)'"))
				}
				sf.RecvN, sf.RecvT = w[0], w[1]
				head = strings.TrimSpace(head[rp+1:])
			}
			lp := strings.Index(head, "(")
			if lp < 0 {
				return nil, fail(i, fmt.Errorf("missing parameter list"))
			}
			sf.Name = strings.TrimSpace(head[:lp])
			rp := matchParen(head, lp)
			sf.Params = parseBinds(head[lp+1 : rp])
			if r := strings.TrimSpace(head[rp+1:]); r != "" {
				sf.Result = r
			} else if kw != "pred" {
				sf.Result = "int"
			}
			if kw == "pred" {
				sf.Result = "bool"
			}
			if body != "" {
				e, err := parseSpecExpr(body)
				if err != nil {
					return nil, fail(i, err)
				}
				sf.Body = e
				sf.BodyTxt = body
			}
			sf.Key = sf.Name
			if sf.RecvT != "" {
				sf.Key = "(" + sf.RecvT + ")." + sf.Name
			}
			cf.SpecFns[sf.Key] = sf
			cur = nil
		case "axiom":
			c, err := mkClause(rest)
			if err != nil {
				return nil, fail(i, err)
			}
			cf.Axioms = append(cf.Axioms, &Axiom{Pkg: pkg, C: c})
		case "guards":
			// guards Type.mutex: f1, f2, *f3
			ci := strings.Index(rest, ":")
			if ci < 0 {
				return nil, fail(i, fmt.Errorf("guards needs ':'"))
			}
			tm := strings.TrimSpace(rest[:ci])
			di := strings.LastIndex(tm, ".")
			g := &Guard{Pkg: pkg, Type: tm[:di], Mutex: tm[di+1:], Fields: splitTopLevel(rest[ci+1:], ',')}
			cf.Guards = append(cf.Guards, g)
			curGuard = g
			cur = nil
		case "lockinv", "rely":
			if curGuard == nil {
				return nil, fail(i, fmt.Errorf("%s outside guards", kw))
			}
			c, err := mkClause(rest)
			if err != nil {
				return nil, fail(i, err)
			}
			if kw == "lockinv" {
				curGuard.Inv = append(curGuard.Inv, c)
			} else {
				curGuard.Rely = append(curGuard.Rely, c)
			}
		case "chaninv", "chanassume":
			// chaninv ElemType v: expr
			ci := strings.Index(rest, ":")
			if ci < 0 {
				return nil, fail(i, fmt.Errorf("chaninv needs ':'"))
			}
			w := strings.Fields(rest[:ci])
			if len(w) != 2 {
				return nil, fail(i, fmt.Errorf("chaninv ElemType var: expr"))
			}
			c, err := mkClause(rest[ci+1:])
			if err != nil {
				return nil, fail(i, err)
			}
			cf.ChanInvs = append(cf.ChanInvs, &ChanInv{Pkg: pkg, Elem: w[0], Var: w[1], Inv: c, Assume: kw == "chanassume"})
		case "ghost":
			// ghost Type.name type
			w := strings.Fields(rest)
			if len(w) != 2 {
				return nil, fail(i, fmt.Errorf("ghost Type.name type"))
			}
			di := strings.LastIndex(w[0], ".")
			if di < 0 {
				cf.Ghosts = append(cf.Ghosts, &GhostField{Pkg: pkg, Type: "", Name: w[0], Ty: w[1]})
			} else {
				cf.Ghosts = append(cf.Ghosts, &GhostField{Pkg: pkg, Type: w[0][:di], Name: w[0][di+1:], Ty: w[1]})
			}
		default:
			return nil, fail(i, fmt.Errorf("unknown clause keyword %q", kw))
		}
	}
	return cf, nil
}

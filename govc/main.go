package main

import (
	"fmt"
	"go/ast"
	"go/types"
	"strconv"
	"os"
	"runtime/pprof"
	"path/filepath"
	"sort"
	"strings"
	"time"
)

func envOr(k, d string) string {
	if v := os.Getenv(k); v != "" {
		return v
	}
	return d
}

func newEngine() *Engine {
	return &Engine{repo: envOr("GOVC_REPO", "/repo"), verif: envOr("GOVC_VERIF", "/verif")}
}

func usage() {
	fmt.Fprintln(os.Stderr, `usage:
  govc fn <pkg-rel-path> <contract-key> [-v] [-keep]     verify one function (development)
  govc check <property-id> [--tier quick|thorough]       run a property check
  govc replay <path>                                     re-run a replay file
  govc selftest                                          must-fail corpus`)
	os.Exit(2)
}

func main() {
	os.Setenv("PATH", "/opt/veriftools/go1.26.8/bin:"+os.Getenv("PATH"))
	os.Setenv("GOTOOLCHAIN", "local")
	os.Setenv("GOFLAGS", "-mod=mod")
	os.Setenv("GOPROXY", "off")
	os.Setenv("GOSUMDB", "off")
	if len(os.Args) < 2 {
		usage()
	}
	if pf := os.Getenv("GOVC_PROF"); pf != "" {
		f, _ := os.Create(pf)
		pprof.StartCPUProfile(f)
		go func() {
			time.Sleep(40 * time.Second)
			pprof.StopCPUProfile()
			f.Close()
			os.Exit(3)
		}()
	}
	switch os.Args[1] {
	case "shapes":
		cmdShapes()
	case "fn":
		cmdFn(os.Args[2:])
	case "check":
		os.Exit(cmdCheck(os.Args[2:]))
	case "replay":
		os.Exit(cmdReplay(os.Args[2:]))
	case "corpus":
		// run the demonstration corpus of one property against the current tree (development aid)
		eng := newEngine()
		note, failing := runDemoCorpus(eng, os.Args[2])
		fmt.Println(note)
		if failing != "" {
			fmt.Println("failing:", failing)
			os.Exit(1)
		}
	case "selftest":
		os.Exit(cmdSelftest(os.Args[2:]))
	default:
		usage()
	}
}

func cmdFn(args []string) {
	if len(args) < 2 {
		usage()
	}
	verbose, keep := false, false
	for _, a := range args[2:] {
		if a == "-v" {
			verbose = true
		}
		if a == "-keep" {
			keep = true
		}
	}
	eng := newEngine()
	t0 := time.Now()
	var pats []string
	for _, rel := range contractPackages(eng.verif) {
		pats = append(pats, "./"+rel)
	}
	pats = append(pats, depPackages(eng.verif)...)
	if err := eng.load(pats, nil); err != nil {
		fmt.Fprintln(os.Stderr, "load:", err)
		os.Exit(2)
	}
	fmt.Printf("loaded in %.1fs\n", time.Since(t0).Seconds())
	p := eng.pkgs[modPath+"/"+args[0]]
	if p == nil {
		p = eng.pkgs[args[0]]
	}
	if p == nil || p.cf == nil {
		fmt.Fprintln(os.Stderr, "no package / contract file for", args[0])
		os.Exit(2)
	}
	var keys []string
	if args[1] == "all" {
		for _, k := range p.cf.Order {
			if !p.cf.Contracts[k].Extern {
				keys = append(keys, k)
			}
		}
	} else {
		keys = []string{args[1]}
	}
	dir, _ := os.MkdirTemp("", "govc")
	if !keep {
		defer os.RemoveAll(dir)
	} else {
		fmt.Println("smt files in", dir)
	}
	var frs []*FuncResult
	for _, k := range keys {
		ct := p.cf.Contracts[k]
		if ct == nil {
			fmt.Fprintln(os.Stderr, "no contract", k)
			os.Exit(2)
		}
		tv := time.Now()
		fr := eng.verifyFunction(p, k, ct)
		if d := time.Since(tv).Seconds(); d > 1 {
			fmt.Printf("  (VC generation for %s took %.1fs)\n", k, d)
		}
		if fr.Unsupported != "" {
			fmt.Printf("UNSUPPORTED %s: %s\n", fr.Key, fr.Unsupported)
		}
		for _, w := range fr.Warnings {
			fmt.Printf("  warning: %s\n", w)
		}
		frs = append(frs, fr)
	}
	par := 16
	if v := os.Getenv("GOVC_PAR"); v != "" {
		fmt.Sscanf(v, "%d", &par)
	}
	res := dischargeAll(dir, frs, 10, false, par)
	sort.SliceStable(res, func(i, j int) bool { return res[i].O.Name < res[j].O.Name })
	ok, bad := 0, 0
	for _, r := range res {
		good := r.R.Status == "unsat"
		if r.O.Vacuity {
			good = r.R.Status == "sat"
			if !good && verbose {
				fmt.Printf("canary %-90s %s\n", r.O.Name, r.R.Status)
			}
			if !good {
				ok++
				continue
			}
		}
		if good {
			ok++
			if verbose {
				fmt.Printf("ok     %-90s %s %.2fs\n", r.O.Name, r.R.Backend, r.R.Secs)
			}
		} else {
			bad++
			fmt.Printf("FAILED %-90s %s(%s) %.2fs  %s  [%s]\n", r.O.Name, r.R.Status, r.R.Backend, r.R.Secs, r.O.Desc, filepath.Base(r.R.File))
		}
	}
	fmt.Printf("obligation instances=%d ok=%d failed=%d  (%.1fs)\n", len(res), ok, bad, time.Since(t0).Seconds())
	_ = strings.Join
}

// cmdShapes prints `<contract file>\t<key>\t<shape>` for every contract whose function exists (used by bin/shapes to
// write the `shape` clauses).
func cmdShapes() {
	eng := newEngine()
	var pats []string
	for _, rel := range contractPackages(eng.verif) {
		pats = append(pats, "./"+rel)
	}
	pats = append(pats, depPackages(eng.verif)...)
	if err := eng.load(pats, nil); err != nil {
		fmt.Fprintln(os.Stderr, "load:", err)
		os.Exit(2)
	}
	for _, p := range eng.pkgs {
		if p.cf == nil || !strings.HasPrefix(p.PkgPath, modPath) {
			continue
		}
		for _, k := range p.cf.Order {
			ct := p.cf.Contracts[k]
			if ct.Extern || strings.HasPrefix(k, "$") {
				continue
			}
			var decl *ast.FuncDecl
			var sig *types.Signature
			if i := strings.LastIndex(k, "$"); i > 0 {
				_, outer := p.findFunc(k[:i])
				n, _ := strconv.Atoi(k[i+1:])
				if outer != nil && outer.Body != nil {
					c := 0
					ast.Inspect(outer.Body, func(x ast.Node) bool {
						if lit, ok := x.(*ast.FuncLit); ok {
							c++
							if c == n && decl == nil {
								decl = &ast.FuncDecl{Name: ast.NewIdent(k), Type: lit.Type, Body: lit.Body}
								sig, _ = p.TypesInfo.TypeOf(lit).(*types.Signature)
							}
						}
						return true
					})
					if decl != nil && decl.Body != nil && sig != nil {
						fmt.Printf("%s\t%s\t%s;outerlits=%d\n", p.cfSource, k, shapeOf(p, decl, sig), c)
						continue
					}
				}
			} else {
				f, d := p.findFunc(k)
				if f != nil {
					decl, sig = d, f.Type().(*types.Signature)
				}
			}
			if decl == nil || decl.Body == nil || sig == nil {
				continue
			}
			fmt.Printf("%s\t%s\t%s\n", p.cfSource, k, shapeOf(p, decl, sig))
		}
	}
}

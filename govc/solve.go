package main

// Discharging obligations: SMT-LIB files, solver race.

import (
	"context"
	"fmt"
	"os"
	"os/exec"
	"path/filepath"
	"strings"
	"sync"
	"time"
)

type SolveResult struct {
	Status  string // unsat | sat | unknown | timeout | error
	Backend string
	Secs    float64
	Output  string
	File    string
	Model   string
}

type solverSpec struct {
	name string
	argv func(file string, secs int) []string
}

var solvers = []solverSpec{
	{"z3-5.1.0", func(f string, s int) []string { return []string{"z3-new", fmt.Sprintf("-T:%d", s), f} }},
	{"cvc5-1.0.3", func(f string, s int) []string {
		return []string{"cvc5", "-q", fmt.Sprintf("--tlimit=%d", s*1000), f}
	}},
	{"z3-4.8.12", func(f string, s int) []string { return []string{"/usr/bin/z3", fmt.Sprintf("-T:%d", s), f} }},
}

func script(smt *SMT, o *Obligation, real bool, wantModel bool) string {
	var b strings.Builder
	if wantModel {
		b.WriteString("(set-option :produce-models true)\n")
	}
	hdr := smt.header(real)
	if o.Vacuity {
		// satisfiability of the precondition is checked without the quantified lemma axioms (they are facts about
		// uninterpreted helpers and only make the solver answer `unknown`)
		var keep []string
		for _, l := range strings.Split(hdr, "\n") {
			if strings.HasPrefix(l, "(assert ") && quantRe.MatchString(l) {
				continue
			}
			keep = append(keep, l)
		}
		hdr = strings.Join(keep, "\n")
	}
	b.WriteString(hdr)
	for _, a := range o.PC {
		b.WriteString("(assert " + a + ")\n")
	}
	if !o.Vacuity {
		b.WriteString("(assert (not " + o.Goal + "))\n")
	}
	b.WriteString("(check-sat)\n")
	if wantModel {
		b.WriteString("(get-model)\n")
	}
	return b.String()
}

func runSolver(ctx context.Context, sp solverSpec, file string, secs int, tag string) SolveResult {
	t0 := time.Now()
	argv := sp.argv(file, secs)
	cctx, cancel := context.WithTimeout(ctx, time.Duration(secs+2)*time.Second)
	defer cancel()
	cmd := exec.CommandContext(cctx, argv[0], argv[1:]...)
	out, _ := cmd.CombinedOutput()
	first := ""
	for _, l := range strings.Split(string(out), "\n") {
		l = strings.TrimSpace(l)
		if l == "" || strings.HasPrefix(l, "WARNING") || strings.HasPrefix(l, "(warning") {
			continue
		}
		first = l
		break
	}
	r := SolveResult{Backend: sp.name + tag, Secs: time.Since(t0).Seconds(), Output: trunc(string(out), 4000), File: file}
	switch {
	case first == "unsat":
		r.Status = "unsat"
	case first == "sat":
		r.Status = "sat"
		if i := strings.Index(string(out), "\n"); i >= 0 {
			r.Model = string(out)[i+1:]
		}
	case first == "unknown":
		r.Status = "unknown"
	case first == "timeout" || cctx.Err() != nil:
		r.Status = "timeout"
	default:
		r.Status = "error"
	}
	return r
}

// discharge races the solvers (and the two encodings of symbolic-modulus arithmetic) on one obligation.
// A validity obligation is discharged by the first `unsat`; a `sat` is trusted only from the ground-truth
// encoding (emod/ediv defined as mod/div).
func discharge(dir string, idx int, smt *SMT, o *Obligation, secs int, all bool) (SolveResult, []SolveResult) {
	fileUF := filepath.Join(dir, fmt.Sprintf("o%04d.smt2", idx))
	fileReal := filepath.Join(dir, fmt.Sprintf("o%04d.real.smt2", idx))
	uf := script(smt, o, false, false)
	usesMod := strings.Contains(strings.Join(o.PC, " ")+o.Goal, "(emod ") || strings.Contains(strings.Join(o.PC, " ")+o.Goal, "(ediv ")
	os.WriteFile(fileReal, []byte(script(smt, o, true, false)), 0o644)
	if !o.Vacuity {
		os.WriteFile(fileUF, []byte(uf), 0o644)
	}
	ctx, cancel := context.WithCancel(context.Background())
	defer cancel()
	definite := func(r SolveResult, real bool) bool {
		if o.Vacuity {
			return r.Status == "sat" || r.Status == "unsat"
		}
		return r.Status == "unsat" || (r.Status == "sat" && real)
	}
	type job struct {
		sp   solverSpec
		file string
		real bool
		secs int
	}
	run := func(jobs []job, stopEarly bool) (*SolveResult, []SolveResult) {
		results := make(chan struct {
			r    SolveResult
			real bool
		}, len(jobs))
		var wg sync.WaitGroup
		for _, j := range jobs {
			wg.Add(1)
			go func(j job) {
				defer wg.Done()
				tag := ""
				if j.real {
					tag = "/real"
				}
				results <- struct {
					r    SolveResult
					real bool
				}{runSolver(ctx, j.sp, j.file, j.secs, tag), j.real}
			}(j)
		}
		go func() { wg.Wait(); close(results) }()
		var allRes []SolveResult
		var best *SolveResult
		for x := range results {
			rr := x.r
			allRes = append(allRes, rr)
			if best == nil && definite(rr, x.real) {
				best = &rr
				if stopEarly {
					cancel()
				}
			}
		}
		return best, allRes
	}
	// stage 1: z3-new, short budget
	var s1 []job
	if o.Vacuity {
		// reachability / satisfiability checks are cheap and best effort: one short run; anything but a
		// definite answer is "inconclusive"
		best, res1 := run([]job{{solvers[0], fileReal, true, 3}}, true)
		if best != nil {
			return *best, res1
		}
		r := SolveResult{Status: "unknown", File: fileReal}
		if len(res1) > 0 {
			r = res1[0]
			if r.Status != "sat" && r.Status != "unsat" {
				r.Status = "unknown"
			}
		}
		return r, res1
	} else {
		s1 = []job{{solvers[0], fileUF, false, min(secs, 2)}}
		if usesMod {
			s1 = append(s1, job{solvers[0], fileReal, true, min(secs, 2)})
		}
	}
	best, res1 := run(s1, !all)
	if best != nil && !all {
		return *best, res1
	}
	ctx, cancel = context.WithCancel(context.Background())
	defer cancel()
	var s2 []job
	for _, sp := range solvers {
		if !o.Vacuity {
			s2 = append(s2, job{sp, fileUF, false, secs})
		}
		if usesMod || o.Vacuity {
			s2 = append(s2, job{sp, fileReal, true, secs})
		}
	}
	best2, res2 := run(s2, !all)
	allRes := append(res1, res2...)
	if best == nil {
		best = best2
	}
	if best != nil {
		return *best, allRes
	}
	r := SolveResult{Status: "timeout", File: fileUF}
	if o.Vacuity {
		r.File = fileReal
	}
	nErr := 0
	for _, x := range allRes {
		if x.Status == "unknown" || x.Status == "sat" {
			r.Status = "unknown"
			r.Backend = x.Backend
			r.Secs = x.Secs
			r.Output = x.Output
		}
		if x.Status == "error" {
			nErr++
			if r.Output == "" {
				r.Output = x.Output
			}
		}
	}
	if nErr == len(allRes) && nErr > 0 {
		// every solver rejected the file: a defect of the generator, not a verdict about the code
		r.Status = "error"
	}
	return r, allRes
}

type OblResult struct {
	O   *Obligation
	R   SolveResult
	All []SolveResult
	Fn  *FuncResult
}

// dischargeAll runs all obligations of the given functions in parallel.
func dischargeAll(dir string, fns []*FuncResult, secs int, all bool, par int) []*OblResult {
	var jobs []*OblResult
	for _, fr := range fns {
		for _, o := range fr.Obls {
			jobs = append(jobs, &OblResult{O: o, Fn: fr})
		}
		for _, o := range fr.ReqSat {
			jobs = append(jobs, &OblResult{O: o, Fn: fr})
		}
	}
	sem := make(chan struct{}, par)
	var wg sync.WaitGroup
	for i, j := range jobs {
		wg.Add(1)
		sem <- struct{}{}
		go func(i int, j *OblResult) {
			defer wg.Done()
			defer func() { <-sem }()
			j.R, j.All = discharge(dir, i, j.Fn.SMT, j.O, secs, all)
		}(i, j)
	}
	wg.Wait()
	return jobs
}

package main

// Symbolic evaluation of Go expressions (code mode).

import (
	"fmt"
	"go/ast"
	"go/constant"
	"go/token"
	"go/types"
	"strings"
)

func (fc *FnCtx) typeOf(e ast.Expr) types.Type {
	t := fc.info.TypeOf(e)
	return fc.subst(t)
}

// subst substitutes type parameters of an inlined generic callee (none for now)
func (fc *FnCtx) subst(t types.Type) types.Type { return t }

func exprText(e ast.Expr) string { return types.ExprString(e) }

func constTerm(fc *FnCtx, v constant.Value, t types.Type) (Val, bool) {
	switch v.Kind() {
	case constant.Bool:
		if constant.BoolVal(v) {
			return Val{"true", t}, true
		}
		return Val{"false", t}, true
	case constant.Int:
		s := v.ExactString()
		if strings.HasPrefix(s, "-") {
			s = "(- " + s[1:] + ")"
		}
		if b, ok := t.Underlying().(*types.Basic); ok && b.Info()&types.IsFloat != 0 {
			return Val{s + ".0", t}, true
		}
		return Val{s, t}, true
	case constant.String:
		return Val{fc.smt.strLit(constant.StringVal(v)), t}, true
	case constant.Float:
		if b, ok := t.Underlying().(*types.Basic); ok && b.Info()&types.IsInteger != 0 {
			if i, ok := constant.Int64Val(constant.ToInt(v)); ok {
				if i < 0 {
					return Val{fmt.Sprintf("(- %d)", -i), t}, true
				}
				return Val{fmt.Sprintf("%d", i), t}, true
			}
		}
		f, _ := constant.Float64Val(v)
		return Val{fmt.Sprintf("%f", f), t}, true
	}
	return Val{}, false
}

func isUntypedNil(t types.Type) bool {
	b, ok := t.(*types.Basic)
	return ok && b.Kind() == types.UntypedNil
}

func isInterface(t types.Type) bool {
	if t == nil {
		return false
	}
	if _, ok := types.Unalias(t).(*types.TypeParam); ok {
		return false
	}
	_, ok := t.Underlying().(*types.Interface)
	return ok
}

// eval evaluates e in st (may add assumptions/obligations and allocate).
func (fc *FnCtx) eval(st *State, e ast.Expr) Val {
	if tv, ok := fc.info.Types[e]; ok && tv.Value != nil {
		t := tv.Type
		if b, ok := t.(*types.Basic); ok && b.Info()&types.IsUntyped != 0 {
			t = types.Default(t)
		}
		if v, ok := constTerm(fc, tv.Value, t); ok {
			return v
		}
	}
	switch e := e.(type) {
	case *ast.ParenExpr:
		return fc.eval(st, e.X)
	case *ast.BasicLit:
		fc.unsupp(e.Pos(), "literal %s", e.Value)
	case *ast.Ident:
		return fc.evalIdent(st, e)
	case *ast.SelectorExpr:
		return fc.evalSelector(st, e)
	case *ast.StarExpr:
		p := fc.eval(st, e.X)
		fc.nilCheck(st, p, e.X)
		return fc.deref(st, p)
	case *ast.UnaryExpr:
		return fc.evalUnary(st, e)
	case *ast.BinaryExpr:
		return fc.evalBinary(st, e)
	case *ast.IndexExpr:
		return fc.evalIndex(st, e)
	case *ast.SliceExpr:
		return fc.evalSlice(st, e)
	case *ast.CallExpr:
		vs := fc.evalCall(st, e)
		if len(vs) == 0 {
			return Val{"0", types.Typ[types.Int]}
		}
		return vs[0]
	case *ast.CompositeLit:
		return fc.evalComposite(st, e, fc.typeOf(e))
	case *ast.FuncLit:
		r := fc.alloc(st, "closure")
		st.closures[r] = &closure{lit: e, fc: fc}
		v := Val{r, fc.typeOf(e)}
		fc.linkClosureContract(st, e, v)
		return v
	case *ast.TypeAssertExpr:
		x := fc.eval(st, e.X)
		tt := fc.typeOf(e.Type)
		ok := fc.typeTest(st, x, tt)
		fc.assert(st, "typeassert", exprText(e), e.Pos(), ok, "type assertion without comma-ok must succeed")
		st.assume(ok)
		return fc.unbox(st, x, tt)
	}
	fc.unsupp(e.Pos(), "expression %T %s", e, exprText(e))
	return Val{}
}

func (fc *FnCtx) evalIdent(st *State, e *ast.Ident) Val {
	obj := fc.info.Uses[e]
	if obj == nil {
		obj = fc.info.Defs[e]
	}
	switch o := obj.(type) {
	case *types.Nil:
		t := fc.typeOf(e)
		if sl, ok := t.Underlying().(*types.Slice); ok {
			_ = sl
			return Val{"(mk_Slice 0 0 0 0)", t}
		}
		return Val{"0", t}
	case *types.Var:
		if v, ok := st.vars[o]; ok {
			if fc.isBoxed(o) {
				return fc.deref(st, v)
			}
			return v
		}
		if o.Pkg() != nil && o.Parent() == o.Pkg().Scope() { // package-level variable
			return fc.globalVar(st, o)
		}
		if r := fc.root(); r.isClosure {
			// captured variable of the closure under verification: an arbitrary value fixed at entry
			if v, ok := r.entry.vars[o]; ok {
				st.vars[o] = v
				return v
			}
			v := fc.freshVal(st, "cap_"+o.Name(), o.Type())
			if r.entry != nil {
				r.entry.vars[o] = v
				r.paramsEntry[o.Name()] = v
			}
			st.vars[o] = v
			return v
		}
		fc.unsupp(e.Pos(), "variable %s not in scope of the symbolic state", e.Name)
	case *types.Const:
		if v, ok := constTerm(fc, o.Val(), o.Type()); ok {
			return v
		}
	case *types.Func:
		// function value
		n := "fn_" + sanitize(o.FullName())
		fc.smt.declare(n, fmt.Sprintf("(declare-const %s Int)", n))
		return Val{n, o.Type()}
	}
	fc.unsupp(e.Pos(), "identifier %s (%T)", e.Name, obj)
	return Val{}
}

func (fc *FnCtx) isBoxed(o types.Object) bool {
	for c := fc; c != nil; c = c.parent {
		if c.boxed[o] {
			return true
		}
	}
	return false
}

// immutableGlobalInit returns the initializer of a package-level variable that is never assigned, never has its
// address taken and is never element-assigned anywhere in its package (so it still holds its initial value).
func (eng *Engine) immutableGlobalInit(o *types.Var) (ast.Expr, *Pkg) {
	p := eng.pkgs[o.Pkg().Path()]
	if p == nil {
		return nil, nil
	}
	if r, ok := p.globalInit[o]; ok {
		return r, p
	}
	if p.globalInit == nil {
		p.globalInit = map[*types.Var]ast.Expr{}
	}
	p.globalInit[o] = nil
	var init ast.Expr
	mutated := false
	isO := func(e ast.Expr) bool {
		for {
			switch x := ast.Unparen(e).(type) {
			case *ast.Ident:
				return p.TypesInfo.Uses[x] == o || p.TypesInfo.Defs[x] == o
			case *ast.IndexExpr:
				e = x.X
			case *ast.SelectorExpr:
				e = x.X
			case *ast.SliceExpr:
				e = x.X
			default:
				return false
			}
		}
	}
	for _, f := range p.Syntax {
		ast.Inspect(f, func(n ast.Node) bool {
			switch s := n.(type) {
			case *ast.ValueSpec:
				for i, nm := range s.Names {
					if p.TypesInfo.Defs[nm] == o && len(s.Values) == len(s.Names) {
						init = s.Values[i]
					}
				}
			case *ast.AssignStmt:
				for _, l := range s.Lhs {
					if isO(l) {
						mutated = true
					}
				}
			case *ast.IncDecStmt:
				if isO(s.X) {
					mutated = true
				}
			case *ast.UnaryExpr:
				if s.Op == token.AND && isO(s.X) {
					mutated = true
				}
			case *ast.CallExpr:
				if id, ok := s.Fun.(*ast.Ident); ok && (id.Name == "append" || id.Name == "copy" || id.Name == "clear" || id.Name == "delete") && len(s.Args) > 0 && isO(s.Args[0]) {
					mutated = true
				}
			}
			return true
		})
	}
	if mutated || init == nil {
		return nil, p
	}
	p.globalInit[o] = init
	return init, p
}

func (fc *FnCtx) globalVar(st *State, o *types.Var) Val {
	if init, p := fc.eng.immutableGlobalInit(o); init != nil {
		if _, isLit := ast.Unparen(init).(*ast.CompositeLit); isLit || p.TypesInfo.Types[init].Value != nil {
			sub := fc
			if p != fc.pkg {
				sub = &FnCtx{eng: fc.eng, pkg: p, smt: fc.smt, parent: fc, info: p.TypesInfo, loopOrd: map[ast.Stmt]int{}, boxed: map[types.Object]bool{}, inline: fc.inline}
			}
			v := sub.eval(st, init)
			v.Ty = o.Type()
			return v
		}
	}
	key := "G$" + o.Pkg().Name() + "." + o.Name()
	v := Val{fc.comp(st, key, fc.smt.sortOf(o.Type())), o.Type()}
	fc.assumeTyped(st, v)
	// well-known sentinel errors are non-nil
	if o.Pkg().Path() == "io" && o.Name() == "EOF" {
		st.assumeOnce("(> " + v.T + " 0)")
	}
	return v
}

func (fc *FnCtx) nilCheck(st *State, p Val, e ast.Expr) {
	k := "nn:" + p.T
	if st.known[k] {
		return
	}
	st.known[k] = true
	fc.assert(st, "nil", exprText(e), e.Pos(), "(not (= "+p.T+" 0))", "dereference of possibly nil pointer")
	st.assume("(not (= " + p.T + " 0))")
}

func (fc *FnCtx) deref(st *State, p Val) Val {
	pt, ok := p.Ty.Underlying().(*types.Pointer)
	if !ok {
		panic(unsupportedErr{"deref of non-pointer " + p.Ty.String()})
	}
	if _, isStruct := pt.Elem().Underlying().(*types.Struct); isStruct && !isTimeType(pt.Elem()) {
		return fc.loadStruct(st, p)
	}
	k, ks := fc.ptrKey(pt.Elem())
	v := Val{sel(fc.comp(st, k, ks), p.T), pt.Elem()}
	fc.assumeTyped(st, v)
	return v
}

func (fc *FnCtx) storeDeref(st *State, p Val, v Val) {
	pt := p.Ty.Underlying().(*types.Pointer)
	if _, isStruct := pt.Elem().Underlying().(*types.Struct); isStruct && !isTimeType(pt.Elem()) {
		fc.storeStruct(st, p, v)
		return
	}
	k, ks := fc.ptrKey(pt.Elem())
	fc.setComp(st, k, ks, sto(fc.comp(st, k, ks), p.T, v.T))
}

func (fc *FnCtx) evalSelector(st *State, e *ast.SelectorExpr) Val {
	if sel, ok := fc.info.Selections[e]; ok {
		switch sel.Kind() {
		case types.FieldVal:
			base := fc.eval(st, e.X)
			return fc.walkFields(st, base, sel.Index(), e)
		case types.MethodVal:
			// method value x.M: an (uninterpreted) function of the receiver
			recv := fc.eval(st, e.X)
			return Val{fc.methodValueTerm(recv, sel.Obj().(*types.Func)), fc.typeOf(e)}
		}
	}
	// qualified identifier pkg.Name
	if obj := fc.info.Uses[e.Sel]; obj != nil {
		switch o := obj.(type) {
		case *types.Var:
			return fc.globalVar(st, o)
		case *types.Const:
			if v, ok := constTerm(fc, o.Val(), o.Type()); ok {
				return v
			}
		case *types.Func:
			n := "fn_" + sanitize(o.FullName())
			fc.smt.declare(n, fmt.Sprintf("(declare-const %s Int)", n))
			return Val{n, o.Type()}
		}
	}
	fc.unsupp(e.Pos(), "selector %s", exprText(e))
	return Val{}
}

func (fc *FnCtx) walkFields(st *State, base Val, idx []int, e ast.Expr) Val {
	cur := base
	for _, i := range idx {
		if _, ok := cur.Ty.Underlying().(*types.Pointer); ok {
			fc.nilCheck(st, cur, e)
		}
		fc.guardCheck(st, cur, i, e)
		cur = fc.readField(st, cur, i)
	}
	return cur
}

// guardCheck: a field listed in a `guards T.mu: ...` clause is read or written only while T.mu is held, unless the
// object was allocated by this very function (it has not been published yet). Lock state is tracked syntactically,
// so a helper that runs under its caller's lock needs `requires held(x.mu)`.
func (fc *FnCtx) guardCheck(st *State, base Val, i int, e ast.Node) {
	fc.guardCheckRW(st, base, i, e, false)
}

// write: the field itself is assigned. An entry `*f` guards what f refers to, not the reference, so it does not apply.
func (fc *FnCtx) guardCheckRW(st *State, base Val, i int, e ast.Node, write bool) {
	if _, ok := base.Ty.Underlying().(*types.Pointer); !ok {
		return
	}
	_, su, _ := derefStruct(base.Ty)
	n := namedOf(base.Ty)
	if su == nil || n == nil {
		return
	}
	f := su.Field(i)
	for _, g := range fc.eng.guards {
		if g.Type != n.Obj().Name() || (n.Obj().Pkg() != nil && n.Obj().Pkg().Path() != g.Pkg) {
			continue
		}
		listed := false
		for _, fn := range g.Fields {
			// `!f`: discipline only - f is accessed under the lock but not havocked at acquisition (the contract of
			// the function is then the linearised effect of its critical section)
			if fn == f.Name() || fn == "!"+f.Name() || (!write && fn == "*"+f.Name()) {
				listed = true
			}
		}
		if !listed {
			continue
		}
		if _, held := st.locks[lockID(base, g.Mutex)]; held {
			continue
		}
		fc.assert(st, "guard", g.Type+"."+f.Name(), e.Pos(), "(> "+base.T+" top0)",
			"field guarded by "+g.Mutex+" is accessed while the lock is not held")
	}
}

func (fc *FnCtx) evalUnary(st *State, e *ast.UnaryExpr) Val {
	switch e.Op {
	case token.NOT:
		v := fc.eval(st, e.X)
		return Val{not(v.T), v.Ty}
	case token.SUB:
		v := fc.eval(st, e.X)
		r := Val{"(- " + v.T + ")", v.Ty}
		return fc.overflowCheck(st, r, e)
	case token.ADD:
		return fc.eval(st, e.X)
	case token.AND:
		return fc.addrOf(st, e.X)
	case token.ARROW:
		ch := fc.eval(st, e.X)
		v, _ := fc.chanRecv(st, ch, e)
		return v
	}
	fc.unsupp(e.Pos(), "unary %s", e.Op)
	return Val{}
}

func (fc *FnCtx) addrOf(st *State, x ast.Expr) Val {
	switch x := x.(type) {
	case *ast.ParenExpr:
		return fc.addrOf(st, x.X)
	case *ast.CompositeLit:
		t := fc.typeOf(x)
		p := Val{fc.alloc(st, "new"), types.NewPointer(t)}
		if su, ok := t.Underlying().(*types.Struct); ok && !isTimeType(t) {
			// field-wise initialisation (no datatype needed for large / foreign structs)
			vals := make([]string, su.NumFields())
			for i := 0; i < su.NumFields(); i++ {
				vals[i] = fc.smt.zero(su.Field(i).Type())
			}
			for i, el := range x.Elts {
				if kv, ok := el.(*ast.KeyValueExpr); ok {
					j := fieldIndex(su, kv.Key.(*ast.Ident).Name)
					if j < 0 {
						fc.unsupp(el.Pos(), "unknown field in literal")
					}
					vals[j] = fc.evalElt(st, kv.Value, su.Field(j).Type()).T
				} else {
					vals[i] = fc.evalElt(st, el, su.Field(i).Type()).T
				}
			}
			for i := 0; i < su.NumFields(); i++ {
				fc.writeFieldPtr(st, p, i, vals[i])
			}
			// ghost fields of a freshly allocated struct start at their zero value
			if n := namedOf(t); n != nil {
				for _, g := range fc.eng.ghosts {
					if fc.eng.ghostField(t, g.Name) != g {
						continue
					}
					gt := fc.eng.resolveGhostType(g)
					key := "F$" + structKeyName(types.NewPointer(t)) + ".ghost_" + g.Name
					srt := "(Array Int " + fc.smt.sortOf(gt) + ")"
					fc.setComp(st, key, srt, sto(fc.comp(st, key, srt), p.T, fc.smt.zero(gt)))
				}
			}
			fc.assumeDynType(st, p)
			return p
		}
		v := fc.evalComposite(st, x, t)
		fc.storeDeref(st, p, v)
		fc.assumeDynType(st, p)
		return p
	case *ast.Ident:
		obj := fc.info.Uses[x]
		if v, ok := st.vars[obj]; ok && fc.isBoxed(obj) {
			return v
		}
		if o, ok := obj.(*types.Var); ok && o.Pkg() != nil && o.Parent() == o.Pkg().Scope() {
			n := "addr_G_" + sanitize(o.Pkg().Name()+"."+o.Name())
			fc.smt.declare(n, fmt.Sprintf("(declare-const %s Int)", n))
			st.assumeOnce("(> " + n + " 0)")
			return Val{n, types.NewPointer(o.Type())}
		}
	case *ast.SelectorExpr:
		// &x.f : model as an opaque address that is a function of (x, field)
		if sel, ok := fc.info.Selections[x]; ok && sel.Kind() == types.FieldVal {
			base := fc.eval(st, x.X)
			n := "addr_" + sanitize(structKeyName(base.Ty)+"_"+x.Sel.Name)
			fc.smt.declare(n, fmt.Sprintf("(declare-fun %s (Int) Int)", n))
			return Val{"(" + n + " " + base.T + ")", types.NewPointer(sel.Type())}
		}
	}
	fc.unsupp(x.Pos(), "address-of %s", exprText(x))
	return Val{}
}

func (fc *FnCtx) assumeDynType(st *State, p Val) {
	st.assume(eq("(dyntype "+p.T+")", fc.smt.typeTag(p.Ty)))
}

func isIntegerType(t types.Type) bool {
	b, ok := types.Unalias(t).Underlying().(*types.Basic)
	return ok && b.Info()&types.IsInteger != 0
}
func isStringType(t types.Type) bool {
	b, ok := types.Unalias(t).Underlying().(*types.Basic)
	return ok && b.Info()&types.IsString != 0
}

// overflowCheck: by default an arithmetic result outside the type's range is an obligation (the model uses
// mathematical integers). Under `arith wrap` the exact two's-complement result is computed instead.
func (fc *FnCtx) overflowCheck(st *State, r Val, e ast.Expr) Val {
	lo, hi, ok := intRange(r.Ty)
	if !ok {
		return r
	}
	if ct := fc.root().ct; (ct != nil && ct.ArithWrap) || (fc.ct != nil && fc.ct.ArithWrap) {
		w := fc.smt.fresh("wrap", "Int")
		inr := fmt.Sprintf("(and (<= %s %s) (<= %s %s))", lo, r.T, r.T, hi)
		st.assume(fmt.Sprintf("(and (<= %s %s) (<= %s %s))", lo, w, w, hi))
		st.assume(imp(inr, eq(w, r.T)))
		// exact wrap-around: w == r (mod 2^bits), written with a constant modulus (linear arithmetic)
		var span string
		switch hi {
		case "127", "255":
			span = "256"
		case "32767", "65535":
			span = "65536"
		case "2147483647", "4294967295":
			span = "4294967296"
		default:
			span = "18446744073709551616"
		}
		st.assume(fmt.Sprintf("(= (mod (- %s %s) %s) 0)", w, r.T, span))
		return Val{w, r.Ty}
	}
	fc.assert(st, "overflow", exprText(e), e.Pos(), fmt.Sprintf("(and (<= %s %s) (<= %s %s))", lo, r.T, r.T, hi),
		"integer arithmetic stays within "+r.Ty.String())
	return r
}

func goDiv(a, b string) string {
	return fmt.Sprintf("(ite (>= %s 0) %s (- %s))", a, edivT(a, b), edivT("(- "+a+")", b))
}
func goMod(a, b string) string {
	return fmt.Sprintf("(ite (>= %s 0) %s (- %s))", a, emodT(a, b), emodT("(- "+a+")", b))
}

func (fc *FnCtx) evalBinary(st *State, e *ast.BinaryExpr) Val {
	boolT := types.Typ[types.Bool]
	switch e.Op {
	case token.LAND, token.LOR:
		a := fc.eval(st, e.X)
		// evaluate the right operand under the short-circuit condition
		n := len(st.pc)
		if e.Op == token.LAND {
			st.pc = append(st.pc, a.T)
		} else {
			st.pc = append(st.pc, not(a.T))
		}
		b := fc.eval(st, e.Y)
		// assumptions added while evaluating Y hold only under the guard
		extra := append([]string(nil), st.pc[n+1:]...)
		guard := st.pc[n]
		st.pc = st.pc[:n]
		for _, x := range extra {
			st.pc = append(st.pc, imp(guard, x))
		}
		if e.Op == token.LAND {
			return Val{and(a.T, b.T), boolT}
		}
		return Val{or(a.T, b.T), boolT}
	}
	a := fc.eval(st, e.X)
	b := fc.eval(st, e.Y)
	// nil comparisons with slices / typed operands
	switch e.Op {
	case token.EQL, token.NEQ:
		var r string
		_, aSl := a.Ty.Underlying().(*types.Slice)
		_, bSl := b.Ty.Underlying().(*types.Slice)
		if aSl || bSl {
			s := a
			if !aSl {
				s = b
			}
			r = "(= (s_base " + s.T + ") 0)"
		} else {
			a, b = fc.coerceIface(st, a, b)
			r = eq(a.T, b.T)
		}
		if e.Op == token.NEQ {
			r = not(r)
		}
		return Val{r, boolT}
	case token.LSS, token.LEQ, token.GTR, token.GEQ:
		if isStringType(a.Ty) {
			fc.smt.declare("str_lt", "(declare-fun str_lt (Str Str) Bool)")
			switch e.Op {
			case token.LSS:
				return Val{"(str_lt " + a.T + " " + b.T + ")", boolT}
			case token.GTR:
				return Val{"(str_lt " + b.T + " " + a.T + ")", boolT}
			case token.LEQ:
				return Val{not("(str_lt " + b.T + " " + a.T + ")"), boolT}
			default:
				return Val{not("(str_lt " + a.T + " " + b.T + ")"), boolT}
			}
		}
		op := map[token.Token]string{token.LSS: "<", token.LEQ: "<=", token.GTR: ">", token.GEQ: ">="}[e.Op]
		return Val{"(" + op + " " + a.T + " " + b.T + ")", boolT}
	}
	rt := fc.typeOf(e)
	if b, ok := rt.(*types.Basic); ok && b.Info()&types.IsUntyped != 0 {
		rt = types.Default(rt)
	}
	switch e.Op {
	case token.ADD:
		if isStringType(rt) {
			return Val{"(str_concat " + a.T + " " + b.T + ")", rt}
		}
		r := Val{"(+ " + a.T + " " + b.T + ")", rt}
		return fc.overflowCheck(st, r, e)
	case token.SUB:
		r := Val{"(- " + a.T + " " + b.T + ")", rt}
		return fc.overflowCheck(st, r, e)
	case token.MUL:
		r := Val{"(* " + a.T + " " + b.T + ")", rt}
		return fc.overflowCheck(st, r, e)
	case token.QUO:
		if isIntegerType(rt) {
			fc.assert(st, "divzero", exprText(e), e.Pos(), not(eq(b.T, "0")), "division by zero")
			st.assume(not(eq(b.T, "0")))
			r := Val{fc.smt.fresh("quo", "Int"), rt}
			st.assume(eq(r.T, goDiv(a.T, b.T)))
			st.assume(imp(and("(>= "+a.T+" 0)", "(> "+b.T+" 0)"), eq(r.T, edivT(a.T, b.T))))
			return fc.overflowCheck(st, r, e)
		}
		return Val{"(/ " + a.T + " " + b.T + ")", rt}
	case token.REM:
		fc.assert(st, "divzero", exprText(e), e.Pos(), not(eq(b.T, "0")), "division by zero")
		st.assume(not(eq(b.T, "0")))
		rm := Val{fc.smt.fresh("rem", "Int"), rt}
		st.assume(eq(rm.T, goMod(a.T, b.T)))
		st.assume(imp(and("(>= "+a.T+" 0)", "(> "+b.T+" 0)"), eq(rm.T, emodT(a.T, b.T))))
		return rm
	case token.SHL, token.SHR, token.AND, token.OR, token.XOR, token.AND_NOT:
		n := "bitop_" + map[token.Token]string{token.SHL: "shl", token.SHR: "shr", token.AND: "and", token.OR: "or", token.XOR: "xor", token.AND_NOT: "andnot"}[e.Op]
		fc.smt.declare(n, fmt.Sprintf("(declare-fun %s (Int Int) Int)", n))
		r := Val{"(" + n + " " + a.T + " " + b.T + ")", rt}
		fc.assumeTyped(st, r)
		return r
	}
	fc.unsupp(e.Pos(), "binary operator %s", e.Op)
	return Val{}
}

// coerceIface: comparing an interface with a concrete value / nil
func (fc *FnCtx) coerceIface(st *State, a, b Val) (Val, Val) {
	return a, b
}

func (fc *FnCtx) evalIndex(st *State, e *ast.IndexExpr) Val {
	xt := fc.typeOf(e.X)
	if xt == nil {
		fc.unsupp(e.Pos(), "index on untyped %s", exprText(e))
	}
	switch u := xt.Underlying().(type) {
	case *types.Slice:
		s := fc.eval(st, e.X)
		i := fc.eval(st, e.Index)
		fc.assert(st, "bounds", exprText(e), e.Pos(), fmt.Sprintf("(and (<= 0 %s) (< %s (s_len %s)))", i.T, i.T, s.T), "slice index in range")
		st.assume(fmt.Sprintf("(and (<= 0 %s) (< %s (s_len %s)))", i.T, i.T, s.T))
		return fc.sliceElem(st, s, i.T, u.Elem())
	case *types.Map:
		m := fc.eval(st, e.X)
		k := fc.eval(st, e.Index)
		v, _ := fc.mapLookup(st, m, k)
		return v
	case *types.Array:
		a := fc.eval(st, e.X)
		i := fc.eval(st, e.Index)
		fc.assert(st, "bounds", exprText(e), e.Pos(), fmt.Sprintf("(and (<= 0 %s) (< %s %d))", i.T, i.T, u.Len()), "array index in range")
		return Val{sel(a.T, i.T), u.Elem()}
	case *types.Basic:
		if u.Info()&types.IsString != 0 {
			s := fc.eval(st, e.X)
			i := fc.eval(st, e.Index)
			fc.assert(st, "bounds", exprText(e), e.Pos(), fmt.Sprintf("(and (<= 0 %s) (< %s (strlen %s)))", i.T, i.T, s.T), "string index in range")
			fc.smt.declare("str_at", "(declare-fun str_at (Str Int) Int)")
			r := Val{"(str_at " + s.T + " " + i.T + ")", types.Typ[types.Uint8]}
			fc.assumeTyped(st, r)
			return r
		}
	case *types.Signature:
		// generic function instantiation f[T]
		return fc.eval(st, e.X)
	}
	fc.unsupp(e.Pos(), "index expression %s on %s", exprText(e), xt)
	return Val{}
}

func (fc *FnCtx) sliceElem(st *State, s Val, i string, elem types.Type) Val {
	k, ks := fc.elemsKey(elem)
	v := Val{sel(sel(fc.comp(st, k, ks), "(s_base "+s.T+")"), i), elem}
	fc.assumeTyped(st, v)
	return v
}

func (fc *FnCtx) sliceStore(st *State, s Val, i string, elem types.Type, v string) {
	k, ks := fc.elemsKey(elem)
	c := fc.comp(st, k, ks)
	row := sel(c, "(s_base "+s.T+")")
	fc.setComp(st, k, ks, sto(c, "(s_base "+s.T+")", sto(row, i, v)))
}

func (fc *FnCtx) mapLookup(st *State, m Val, k Val) (Val, string) {
	mt := m.Ty.Underlying().(*types.Map)
	dk, ds, vk, vs := fc.mapKeys(mt)
	dom := sel(sel(fc.comp(st, dk, ds), m.T), k.T)
	val := sel(sel(fc.comp(st, vk, vs), m.T), k.T)
	// nil map has empty domain
	st.assumeOnce(fmt.Sprintf("(=> (= %s 0) (not %s))", m.T, dom))
	st.assumeOnce(fmt.Sprintf("(=> %s (>= %s 1))", dom, sel(fc.comp(st, mapLenKey, mapLenSort), m.T)))
	v := Val{ite(dom, val, fc.smt.zero(mt.Elem())), mt.Elem()}
	fc.assumeTyped(st, Val{val, mt.Elem()})
	return v, dom
}

func (fc *FnCtx) mapStore(st *State, m Val, k Val, v string) {
	mt := m.Ty.Underlying().(*types.Map)
	dk, ds, vk, vs := fc.mapKeys(mt)
	dc, vc, lc := fc.comp(st, dk, ds), fc.comp(st, vk, vs), fc.comp(st, mapLenKey, mapLenSort)
	dom := sel(sel(dc, m.T), k.T)
	newLen := ite(dom, sel(lc, m.T), "(+ "+sel(lc, m.T)+" 1)")
	fc.setComp(st, mapLenKey, mapLenSort, sto(lc, m.T, newLen))
	fc.setComp(st, dk, ds, sto(dc, m.T, sto(sel(dc, m.T), k.T, "true")))
	fc.setComp(st, vk, vs, sto(vc, m.T, sto(sel(vc, m.T), k.T, v)))
}

func (fc *FnCtx) mapDelete(st *State, m Val, k Val) {
	mt := m.Ty.Underlying().(*types.Map)
	dk, ds, _, _ := fc.mapKeys(mt)
	dc, lc := fc.comp(st, dk, ds), fc.comp(st, mapLenKey, mapLenSort)
	dom := sel(sel(dc, m.T), k.T)
	newLen := ite(dom, "(- "+sel(lc, m.T)+" 1)", sel(lc, m.T))
	st.assumeOnce(fmt.Sprintf("(=> %s (>= %s 1))", dom, sel(lc, m.T)))
	fc.setComp(st, mapLenKey, mapLenSort, sto(lc, m.T, newLen))
	fc.setComp(st, dk, ds, sto(dc, m.T, sto(sel(dc, m.T), k.T, "false")))
}

func (fc *FnCtx) newMap(st *State, t types.Type) Val {
	mt := t.Underlying().(*types.Map)
	r := fc.alloc(st, "map")
	dk, ds, _, _ := fc.mapKeys(mt)
	ks := fc.smt.sortOf(mt.Key())
	dc, lc := fc.comp(st, dk, ds), fc.comp(st, mapLenKey, mapLenSort)
	fc.setComp(st, dk, ds, sto(dc, r, "((as const (Array "+ks+" Bool)) false)"))
	fc.setComp(st, mapLenKey, mapLenSort, sto(lc, r, "0"))
	return Val{r, t}
}

func (fc *FnCtx) evalSlice(st *State, e *ast.SliceExpr) Val {
	xt := fc.typeOf(e.X)
	sl, ok := xt.Underlying().(*types.Slice)
	if !ok {
		fc.unsupp(e.Pos(), "slice expression on %s", xt)
	}
	s := fc.eval(st, e.X)
	lo, hi := "0", "(s_len "+s.T+")"
	if e.Low != nil {
		lo = fc.eval(st, e.Low).T
	}
	if e.High != nil {
		hi = fc.eval(st, e.High).T
	}
	mx := "(s_cap " + s.T + ")"
	if e.Max != nil {
		mx = fc.eval(st, e.Max).T
	}
	g := fmt.Sprintf("(and (<= 0 %s) (<= %s %s) (<= %s %s) (<= %s (s_cap %s)))", lo, lo, hi, hi, mx, mx, s.T)
	fc.assert(st, "bounds", exprText(e), e.Pos(), g, "slice expression bounds")
	st.assume(g)
	_ = sl
	if lo != "0" {
		fc.unsupp(e.Pos(), "slice expression with a non-zero low bound (slice offsets are not modelled)")
	}
	r := fmt.Sprintf("(mk_Slice (s_base %[1]s) 0 (- %[3]s %[2]s) (- %[4]s %[2]s))", s.T, lo, hi, mx)
	return Val{r, xt}
}

func (fc *FnCtx) evalComposite(st *State, e *ast.CompositeLit, t types.Type) Val {
	switch u := t.Underlying().(type) {
	case *types.Struct:
		if isOpaqueStruct(t) {
			return Val{"opaque0", t}
		}
		ss := fc.smt.structSort(t, u)
		vals := make([]string, len(ss.fields))
		for i, f := range ss.fields {
			vals[i] = fc.smt.zero(f.Type())
		}
		for i, el := range e.Elts {
			if kv, ok := el.(*ast.KeyValueExpr); ok {
				name := kv.Key.(*ast.Ident).Name
				for j, f := range ss.fields {
					if f.Name() == name {
						vals[j] = fc.evalElt(st, kv.Value, f.Type()).T
					}
				}
			} else {
				vals[i] = fc.evalElt(st, el, ss.fields[i].Type()).T
			}
		}
		if len(vals) == 0 {
			return Val{ss.ctor(), t}
		}
		return Val{"(" + ss.ctor() + " " + strings.Join(vals, " ") + ")", t}
	case *types.Slice:
		n := len(e.Elts)
		base := fc.alloc(st, "lit")
		s := Val{fmt.Sprintf("(mk_Slice %s 0 %d %d)", base, n, n), t}
		st.known["freshbase:"+s.T] = true
		for i, el := range e.Elts {
			if _, ok := el.(*ast.KeyValueExpr); ok {
				fc.unsupp(el.Pos(), "keyed slice literal")
			}
			v := fc.evalElt(st, el, u.Elem())
			fc.sliceStore(st, s, fmt.Sprintf("%d", i), u.Elem(), v.T)
		}
		return s
	case *types.Map:
		m := fc.newMap(st, t)
		for _, el := range e.Elts {
			kv := el.(*ast.KeyValueExpr)
			k := fc.evalElt(st, kv.Key, u.Key())
			v := fc.evalElt(st, kv.Value, u.Elem())
			fc.mapStore(st, m, k, v.T)
		}
		return m
	case *types.Array:
		arr := fc.smt.zero(t)
		for i, el := range e.Elts {
			if _, ok := el.(*ast.KeyValueExpr); ok {
				fc.unsupp(el.Pos(), "keyed array literal")
			}
			arr = sto(arr, fmt.Sprintf("%d", i), fc.evalElt(st, el, u.Elem()).T)
		}
		return Val{arr, t}
	case *types.Pointer:
		// element of []*T{{...}}
		inner := fc.evalComposite(st, e, u.Elem())
		p := Val{fc.alloc(st, "new"), t}
		fc.storeDeref(st, p, inner)
		return p
	}
	fc.unsupp(e.Pos(), "composite literal of %s", t)
	return Val{}
}

func (fc *FnCtx) evalElt(st *State, e ast.Expr, want types.Type) Val {
	if cl, ok := e.(*ast.CompositeLit); ok && cl.Type == nil {
		return fc.evalComposite(st, cl, want)
	}
	v := fc.eval(st, e)
	return fc.convertAssign(st, v, want)
}

// convertAssign adapts v to the static type want (boxing into interfaces)
func (fc *FnCtx) convertAssign(st *State, v Val, want types.Type) Val {
	if want == nil || v.Ty == nil {
		return v
	}
	if isInterface(want) && !isInterface(v.Ty) && !isUntypedNil(v.Ty) {
		return fc.box(st, v, want)
	}
	if isUntypedNil(v.Ty) {
		if _, ok := want.Underlying().(*types.Slice); ok {
			return Val{"(mk_Slice 0 0 0 0)", want}
		}
		return Val{"0", want}
	}
	return Val{v.T, want}
}

func isRefLike(t types.Type) bool {
	switch t.Underlying().(type) {
	case *types.Pointer, *types.Map, *types.Chan, *types.Signature:
		return true
	}
	return false
}

// box converts a concrete value into an interface value
func (fc *FnCtx) box(st *State, v Val, iface types.Type) Val {
	if isRefLike(v.Ty) {
		// a typed nil pointer in an interface is a non-nil interface; we model the interface value by the
		// reference itself, so a nil pointer becomes a nil interface (flagged as an approximation).
		st.assumeOnce(imp(not(eq(v.T, "0")), eq("(dyntype "+v.T+")", fc.smt.typeTag(v.Ty))))
		return Val{v.T, iface}
	}
	srt := fc.smt.sortOf(v.Ty)
	fn := "box_" + sanitize(srt)
	un := "unbox_" + sanitize(srt)
	fc.smt.declare(fn, fmt.Sprintf("(declare-fun %s (%s) Int)", fn, srt))
	fc.smt.declare(un, fmt.Sprintf("(declare-fun %s (Int) %s)", un, srt))
	r := "(" + fn + " " + v.T + ")"
	st.assume(fmt.Sprintf("(and (> %s 0) (= (%s %s) %s) (= (dyntype %s) %s))", r, un, r, v.T, r, fc.smt.typeTag(v.Ty)))
	return Val{r, iface}
}

func (fc *FnCtx) typeTest(st *State, x Val, t types.Type) string {
	if isInterface(t) {
		// assertion to an interface type: succeeds for non-nil values (implementation check abstracted)
		fc.warn("type assertion to interface type %s treated as non-nil test", t)
		return not(eq(x.T, "0"))
	}
	return and(not(eq(x.T, "0")), eq("(dyntype "+x.T+")", fc.smt.typeTag(t)))
}

func (fc *FnCtx) unbox(st *State, x Val, t types.Type) Val {
	if isInterface(t) || isRefLike(t) {
		return Val{x.T, t}
	}
	srt := fc.smt.sortOf(t)
	un := "unbox_" + sanitize(srt)
	fn := "box_" + sanitize(srt)
	fc.smt.declare(fn, fmt.Sprintf("(declare-fun %s (%s) Int)", fn, srt))
	fc.smt.declare(un, fmt.Sprintf("(declare-fun %s (Int) %s)", un, srt))
	v := Val{"(" + un + " " + x.T + ")", t}
	fc.assumeTyped(st, v)
	return v
}

// chanRecv models a receive: fresh value satisfying the channel invariant; ok unconstrained
func (fc *FnCtx) chanRecv(st *State, ch Val, e ast.Expr) (Val, Val) {
	ct, okc := ch.Ty.Underlying().(*types.Chan)
	if !okc {
		fc.unsupp(e.Pos(), "receive from non-channel")
	}
	v := fc.freshVal(st, "recv", ct.Elem())
	ok := Val{fc.smt.fresh("recvok", "Bool"), types.Typ[types.Bool]}
	// closed channel yields the zero value
	st.assume(imp(not(ok.T), eq(v.T, fc.smt.zero(ct.Elem()))))
	for _, inv := range fc.eng.chanInvsFor(ct.Elem()) {
		env := fc.specEnvFor(st, inv.Pkg)
		env.scope[inv.Var] = v
		c := fc.specEval(env, inv.Inv.E)
		st.assume(imp(ok.T, c.T))
	}
	if st.recvs == "" {
		st.recvs = "0"
	}
	st.recvs = "(+ " + st.recvs + " (ite " + ok.T + " 1 0))"
	return v, ok
}

func (fc *FnCtx) methodValueTerm(recv Val, m *types.Func) string {
	name := "mv_" + sanitize(structKeyName(recv.Ty)+"_"+m.Name())
	fc.smt.declare(name, fmt.Sprintf("(declare-fun %s (%s) Int)", name, fc.smt.sortOf(recv.Ty)))
	return "(" + name + " " + recv.T + ")"
}

package main

// Counterexample extraction (model of the entry state) and replay / bounded stand-ins on the real code.
// Replay and bounded tests are hand-written in-package Go tests kept under /verif/replay/<pkg>/ and injected
// with `go test -overlay`; nothing is written to /repo.

import (
	"context"
	"encoding/json"
	"fmt"
	"go/types"
	"os"
	"os/exec"
	"path/filepath"
	"regexp"
	"sort"
	"strings"
	"time"
)

type obsTerm struct {
	Name string
	Term string
}

// observe lists the scalar terms that describe an entry value (parameters, receiver fields, slice prefixes)
func (fc *FnCtx) observe(st *State, name string, v Val, depth int, out *[]obsTerm) {
	if depth > 5 || len(*out) > 600 {
		return
	}
	t := types.Unalias(v.Ty)
	if t == nil {
		return
	}
	if _, ok := isAtomicInt(t); ok || isTimeType(t) {
		*out = append(*out, obsTerm{name, v.T})
		return
	}
	switch u := t.Underlying().(type) {
	case *types.Basic:
		*out = append(*out, obsTerm{name, v.T})
	case *types.Pointer:
		*out = append(*out, obsTerm{name + ".$ref", v.T})
		sT, su, _ := derefStruct(t)
		if su == nil || isOpaqueStruct(sT) {
			return
		}
		for i := 0; i < su.NumFields(); i++ {
			f := su.Field(i)
			if isOpaqueStruct(f.Type()) {
				continue
			}
			fc.observe(st, name+"."+f.Name(), fc.readFieldSpec(st, v, i), depth+1, out)
		}
	case *types.Struct:
		if isOpaqueStruct(t) {
			return
		}
		ss := fc.smt.structSort(t, u)
		for i, f := range ss.fields {
			fc.observe(st, name+"."+f.Name(), Val{"(" + ss.sels[i] + " " + v.T + ")", f.Type()}, depth+1, out)
		}
	case *types.Slice:
		*out = append(*out, obsTerm{name + ".$len", "(s_len " + v.T + ")"}, obsTerm{name + ".$cap", "(s_cap " + v.T + ")"})
		k, ks := fc.elemsKey(u.Elem())
		for j := 0; j < 8; j++ {
			el := Val{sel(sel(fc.comp(st, k, ks), "(s_base "+v.T+")"), fmt.Sprintf("%d", j)), u.Elem()}
			fc.observe(st, fmt.Sprintf("%s[%d]", name, j), el, depth+1, out)
		}
	case *types.Map:
		*out = append(*out, obsTerm{name + ".$ref", v.T}, obsTerm{name + ".$len", sel(fc.comp(st, mapLenKey, mapLenSort), v.T)})
	case *types.Interface, *types.Chan, *types.Signature:
		*out = append(*out, obsTerm{name + ".$ref", v.T})
	}
}

var quantRe = regexp.MustCompile(`\((forall|exists) `)

// findModel asks for a model of (path condition and not goal) with quantified assumptions dropped and
// evaluates the observation terms in it. The model is only a candidate: it is trusted only after replay.
func findModel(eng *Engine, f *OblResult, work string) (string, map[string]any) {
	fr := f.Fn
	if len(fr.Observe) == 0 {
		return "", nil
	}
	var b strings.Builder
	b.WriteString("(set-option :produce-models true)\n")
	b.WriteString(fr.SMT.header(true))
	dropped := 0
	for _, a := range f.O.PC {
		if quantRe.MatchString(a) {
			dropped++
			continue
		}
		b.WriteString("(assert " + a + ")\n")
	}
	// small-model bias: keep the goal, bound slice lengths
	b.WriteString("(assert (not " + f.O.Goal + "))\n")
	var terms []string
	for _, o := range fr.Observe {
		terms = append(terms, o.Term)
	}
	script := b.String()
	// drop quantified axioms from the header as well (they are lemmas; the model is re-validated by replay)
	var lines []string
	for _, l := range strings.Split(script, "\n") {
		if strings.HasPrefix(l, "(assert ") && quantRe.MatchString(l) && !strings.HasPrefix(l, "(assert (not ") {
			continue
		}
		lines = append(lines, l)
	}
	script = strings.Join(lines, "\n")
	try := func(extra string) (string, string) {
		s := script + extra + "(check-sat)\n(get-value (" + strings.Join(terms, " ") + "))\n"
		file := filepath.Join(work, "model.smt2")
		os.WriteFile(file, []byte(s), 0o644)
		for _, sp := range []solverSpec{solvers[0], solvers[2]} {
			ctx, cancel := context.WithTimeout(context.Background(), 12*time.Second)
			argv := sp.argv(file, 10)
			out, _ := exec.CommandContext(ctx, argv[0], argv[1:]...).CombinedOutput()
			cancel()
			txt := string(out)
			if strings.HasPrefix(strings.TrimSpace(txt), "sat") {
				return sp.name, txt
			}
		}
		return "", ""
	}
	// prefer small slices
	var bound strings.Builder
	for _, o := range fr.Observe {
		if strings.HasSuffix(o.Name, ".$len") {
			bound.WriteString("(assert (<= " + o.Term + " 6))\n")
		}
	}
	solver, txt := try(bound.String())
	if txt == "" {
		solver, txt = try("")
	}
	if txt == "" {
		return "", nil
	}
	vals := parseGetValue(txt, len(terms))
	if vals == nil {
		return trunc(txt, 2000), nil
	}
	inputs := map[string]any{}
	for i, o := range fr.Observe {
		if i < len(vals) {
			inputs[o.Name] = vals[i]
		}
	}
	inputs["$solver"] = solver
	inputs["$dropped_quantified_assumptions"] = dropped
	return trunc(txt, 4000), inputs
}

// parseGetValue extracts the values of a (get-value ...) answer: ((term value) (term value) ...)
func parseGetValue(txt string, n int) []any {
	i := strings.Index(txt, "((")
	if i < 0 {
		return nil
	}
	body := strings.TrimSpace(txt[i:])
	// strip the outer parens
	if !strings.HasPrefix(body, "(") {
		return nil
	}
	depth := 0
	end := -1
	for j := 0; j < len(body); j++ {
		if body[j] == '(' {
			depth++
		} else if body[j] == ')' {
			depth--
			if depth == 0 {
				end = j
				break
			}
		}
	}
	if end < 0 {
		return nil
	}
	pairs := splitSexp(body[1:end])
	var out []any
	for _, p := range pairs {
		if !strings.HasPrefix(p, "(") {
			continue
		}
		parts := splitSexp(p[1 : len(p)-1])
		if len(parts) != 2 {
			out = append(out, p)
			continue
		}
		out = append(out, smtValue(parts[1]))
	}
	return out
}

func smtValue(s string) any {
	s = strings.TrimSpace(s)
	if s == "true" {
		return true
	}
	if s == "false" {
		return false
	}
	if strings.HasPrefix(s, "(- ") {
		var v int64
		if _, err := fmt.Sscanf(s, "(- %d)", &v); err == nil {
			return -v
		}
	}
	var v int64
	if _, err := fmt.Sscanf(s, "%d", &v); err == nil && isNumeral(s) {
		return v
	}
	return s
}

// ---------- replay index ----------

type replayEntry struct {
	Function string `json:"function"` // obligation prefix, e.g. proxy.(*proxyIDRingBuffer).Append
	Pkg      string `json:"pkg"`      // package dir relative to the repo
	File     string `json:"file"`     // test file under /verif/replay
	Test     string `json:"test"`     // test function for single-input replay
	// Obligation, if set, restricts the entry to obligations whose name contains it
	Obligation string `json:"obligation,omitempty"`
	// Delays force a particular interleaving: a `time.Sleep` is inserted (in an overlay copy, never in /repo) before the
	// first source line containing Match. A sleep changes scheduling only, not what the code computes.
	Delays []delayPoint `json:"delays,omitempty"`
}

type delayPoint struct {
	File  string `json:"file"`
	Match string `json:"match"`
	Ms    int    `json:"ms"`
}
type boundedEntry struct {
	Name  string `json:"name"`
	Pkg   string `json:"pkg"`
	File  string `json:"file"`
	Test  string `json:"test"`
	Bound string `json:"bound"`
}
type replayIndex struct {
	Replays []replayEntry  `json:"replays"`
	Bounded []boundedEntry `json:"bounded"`
}

func loadReplayIndex(verif string) *replayIndex {
	data, err := os.ReadFile(filepath.Join(verif, "replay", "index.json"))
	if err != nil {
		return &replayIndex{}
	}
	var ri replayIndex
	json.Unmarshal(data, &ri)
	return &ri
}

// runGoTest injects the test file into the package with an overlay and runs one test.
func runGoTest(eng *Engine, pkgRel, file, test string, env []string, timeout time.Duration, delays ...delayPoint) (string, error) {
	work, _ := os.MkdirTemp("", "govc-replay-")
	defer os.RemoveAll(work)
	src := filepath.Join(eng.verif, "replay", file)
	dst := filepath.Join(eng.repo, pkgRel, "zz_govc_"+filepath.Base(file))
	repl := map[string]string{dst: src}
	for i, d := range delays {
		orig := filepath.Join(eng.repo, d.File)
		data, err := os.ReadFile(orig)
		if err != nil {
			continue
		}
		lines := strings.Split(string(data), "\n")
		for j, l := range lines {
			if strings.Contains(l, d.Match) {
				indent := l[:len(l)-len(strings.TrimLeft(l, "\t "))]
				lines = append(lines[:j], append([]string{fmt.Sprintf("%stime.Sleep(%d * time.Millisecond) // schedule-forcing delay (replay only)", indent, d.Ms)}, lines[j:]...)...)
				break
			}
		}
		mod := filepath.Join(work, fmt.Sprintf("delay%d_%s", i, filepath.Base(d.File)))
		os.WriteFile(mod, []byte(strings.Join(lines, "\n")), 0o644)
		repl[orig] = mod
	}
	ov := map[string]any{"Replace": repl}
	data, _ := json.Marshal(ov)
	ovf := filepath.Join(work, "overlay.json")
	os.WriteFile(ovf, data, 0o644)
	ctx, cancel := context.WithTimeout(context.Background(), timeout+30*time.Second)
	defer cancel()
	cmd := exec.CommandContext(ctx, "go", "test", "-mod=mod", "-overlay", ovf, "-vet=off", "-count=1", "-timeout", fmt.Sprintf("%ds", int(timeout.Seconds())), "-run", "^"+test+"$", "-v", "./"+pkgRel+"/")
	cmd.Dir = eng.repo
	cmd.Env = append(os.Environ(), env...)
	out, err := cmd.CombinedOutput()
	return string(out), err
}

func replayOnRealCode(eng *Engine, prop, obl string, f *OblResult, inputs map[string]any) (bool, string) {
	ri := loadReplayIndex(eng.verif)
	fn := obl
	if i := strings.Index(obl, "#"); i >= 0 {
		fn = obl[:i]
	}
	for _, e := range ri.Replays {
		if e.Function != fn || (e.Obligation != "" && !strings.Contains(obl, e.Obligation)) {
			continue
		}
		work, _ := os.MkdirTemp("", "govc-in-")
		defer os.RemoveAll(work)
		in := filepath.Join(work, "input.json")
		data, _ := json.MarshalIndent(inputs, "", " ")
		os.WriteFile(in, data, 0o644)
		out, _ := runGoTest(eng, e.Pkg, e.File, e.Test, []string{"GOVC_REPLAY_INPUT=" + in, "GOVC_OBLIGATION=" + obl}, 60*time.Second, e.Delays...)
		var keep []string
		for _, l := range strings.Split(out, "\n") {
			if strings.Contains(l, "REPLAY-") || strings.Contains(l, "panic") || strings.HasPrefix(l, "--- ") {
				keep = append(keep, strings.TrimSpace(l))
			}
		}
		sort.SliceStable(keep, func(i, j int) bool { return false })
		return strings.Contains(out, "REPLAY-VIOLATION"), trunc(strings.Join(keep, "\n"), 3000)
	}
	return false, "no replay template for " + fn
}

// runBounded runs a bounded stand-in (exhaustive / random executable-contract test on the real code).
func runBounded(eng *Engine, prop, name, tier string, seed int) (string, string) {
	if name == "behaviour_corpus" {
		return runDemoCorpus(eng, prop)
	}
	ri := loadReplayIndex(eng.verif)
	for _, e := range ri.Bounded {
		if e.Name != name {
			continue
		}
		t0 := time.Now()
		to := 120 * time.Second
		if tier == "thorough" {
			to = 600 * time.Second
		}
		out, err := runGoTest(eng, e.Pkg, e.File, e.Test, []string{"GOVC_TIER=" + tier, fmt.Sprintf("GOVC_SEED=%d", seed)}, to)
		cases := ""
		for _, l := range strings.Split(out, "\n") {
			if strings.Contains(l, "BOUNDED-CASES") {
				cases = strings.TrimSpace(l)
			}
		}
		note := fmt.Sprintf("bounded stand-in %s (%s; bound: %s): %s in %.1fs [bounded, never counted as proved]", name, e.Test, e.Bound, cases, time.Since(t0).Seconds())
		if err != nil && (strings.Contains(out, "[build failed]") || strings.Contains(out, "[setup failed]")) {
			return note + " does not compile against this tree (unexported API changed): decides nothing", ""
		}
		if strings.Contains(out, "BOUNDED-VIOLATION") || (err != nil && !strings.Contains(out, "BOUNDED-CASES")) {
			dir := filepath.Join(outDir(eng), "replays", prop)
			os.MkdirAll(dir, 0o755)
			path := filepath.Join(dir, "bounded_"+sanitizeFile(name)+".json")
			var keep []string
			for _, l := range strings.Split(out, "\n") {
				if strings.Contains(l, "BOUNDED-") || strings.Contains(l, "panic:") || strings.HasPrefix(l, "--- ") || strings.Contains(l, "FAIL") {
					keep = append(keep, strings.TrimSpace(l))
				}
			}
			rec := map[string]any{"property": prop, "bounded_check": name, "test": e.Test, "bound": e.Bound, "output": trunc(strings.Join(keep, "\n"), 6000),
				"replayed_on_real_code": true, "how": "go test -overlay (in-package test injected, nothing written to /repo)"}
			data, _ := json.MarshalIndent(rec, "", " ")
			os.WriteFile(path, data, 0o644)
			return note + " VIOLATION", path
		}
		return note + " ok", ""
	}
	return "bounded stand-in " + name + ": not registered in replay/index.json", ""
}

// ---------- lemma bridge (Lean) ----------

func checkLemma(eng *Engine, name string) (bool, string) {
	file := filepath.Join(eng.verif, "lemmas", name+".lean")
	if _, err := os.Stat(file); err != nil {
		return false, "lemma " + name + ": no proof file " + file
	}
	t0 := time.Now()
	ctx, cancel := context.WithTimeout(context.Background(), 15*time.Minute)
	defer cancel()
	cmd := exec.CommandContext(ctx, "lake", "env", "lean", file)
	cmd.Dir = "/opt/veriftools/mathlib4"
	out, err := cmd.CombinedOutput()
	if err != nil || strings.Contains(string(out), "error") || strings.Contains(string(out), "sorry") {
		return false, fmt.Sprintf("lemma %s: lean failed: %s", name, trunc(string(out), 600))
	}
	return true, fmt.Sprintf("lemma %s: checked by Lean 4 + Mathlib in %.1fs", name, time.Since(t0).Seconds())
}

// runDemoCorpus: bounded stand-in of last resort. Every seeded change kept under /verif/seeded/<prop>-<k>/ comes with
// a demonstration - an in-package test with an oracle for the property that passes on the code without the change.
// The demonstrations of the property are injected one at a time with -overlay and run against the current tree; a
// demonstration that fails twice in a row is reported. Used when a function under contract could not be verified
// (contract stale or function outside the generator's subset), never counted as proved.
func runDemoCorpus(eng *Engine, prop string) (string, string) {
	dirs, _ := filepath.Glob(filepath.Join(eng.verif, "seeded", prop+"-*"))
	sort.Strings(dirs)
	t0 := time.Now()
	ran := 0
	var failed, notCompiling []string
	var outputs []string
	runRe := regexp.MustCompile(`-run[ =]+'?"?([^'" ]+)`)
	for _, d := range dirs {
		var meta struct {
			DemoPath string `json:"demo_path"`
			DemoCmd  string `json:"demo_cmd"`
		}
		data, err := os.ReadFile(filepath.Join(d, "meta.json"))
		if err != nil || json.Unmarshal(data, &meta) != nil {
			continue
		}
		rel := strings.Fields(meta.DemoPath)
		if len(rel) == 0 {
			continue
		}
		pkgRel := filepath.Dir(rel[0])
		m := runRe.FindStringSubmatch(meta.DemoCmd)
		if m == nil {
			continue
		}
		files, _ := filepath.Glob(filepath.Join(d, "*_test.go"))
		if len(files) == 0 {
			continue
		}
		run := func() (string, error) {
			work, _ := os.MkdirTemp("", "govc-demo-")
			defer os.RemoveAll(work)
			dst := filepath.Join(eng.repo, pkgRel, "zz_govc_demo_"+filepath.Base(d)+"_test.go")
			ov, _ := json.Marshal(map[string]any{"Replace": map[string]string{dst: files[0]}})
			ovf := filepath.Join(work, "overlay.json")
			os.WriteFile(ovf, ov, 0o644)
			ctx, cancel := context.WithTimeout(context.Background(), 150*time.Second)
			defer cancel()
			cmd := exec.CommandContext(ctx, "go", "test", "-mod=mod", "-overlay", ovf, "-vet=off", "-count=1", "-timeout", "120s", "-run", m[1], "./"+pkgRel+"/")
			cmd.Dir = eng.repo
			out, err := cmd.CombinedOutput()
			return string(out), err
		}
		ran++
		out, err := run()
		if err != nil && (strings.Contains(out, "[build failed]") || strings.Contains(out, "[setup failed]")) {
			// the demonstration was written against an API this tree no longer has: it says nothing about this tree
			notCompiling = append(notCompiling, filepath.Base(d))
			continue
		}
		if err != nil {
			out, err = run() // a timing-dependent demonstration gets a second chance
		}
		if err != nil {
			failed = append(failed, filepath.Base(d))
			var keep []string
			for _, l := range strings.Split(out, "\n") {
				if strings.Contains(l, "FAIL") || strings.Contains(l, "violated") || strings.Contains(l, "panic:") || strings.Contains(l, "Error") {
					keep = append(keep, strings.TrimSpace(l))
				}
			}
			outputs = append(outputs, filepath.Base(d)+": "+trunc(strings.Join(keep, " | "), 1200))
		}
	}
	note := fmt.Sprintf("bounded stand-in behaviour_corpus (%d demonstration tests of %s from /verif/seeded, each with an oracle on the real code): %d failed in %.1fs [bounded, never counted as proved]", ran, prop, len(failed), time.Since(t0).Seconds())
	if len(notCompiling) > 0 {
		note += fmt.Sprintf("; %d do not compile against this tree (unexported API changed) and decide nothing: %s", len(notCompiling), strings.Join(notCompiling, ","))
	}
	if len(failed) > 0 {
		dir := filepath.Join(outDir(eng), "replays", prop)
		os.MkdirAll(dir, 0o755)
		path := filepath.Join(dir, "bounded_behaviour_corpus.json")
		rec := map[string]any{"property": prop, "bounded_check": "behaviour_corpus", "failed_demonstrations": failed, "output": outputs,
			"replayed_on_real_code": true, "how": "go test -overlay (demonstration test injected, nothing written to /repo)"}
		data, _ := json.MarshalIndent(rec, "", " ")
		os.WriteFile(path, data, 0o644)
		return note + " VIOLATION", path
	}
	return note + " ok", ""
}

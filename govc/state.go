package main

// Symbolic state, heap components, obligations.

import (
	"fmt"
	"go/ast"
	"go/token"
	"go/types"
	"sort"
	"strings"
)

const MaxAlloc = "1099511627776" // 2^40, A-mem: slice lengths / capacities

type closure struct {
	lit *ast.FuncLit
	fc  *FnCtx // context in which the literal appeared
}

type deferred struct {
	call *ast.CallExpr
	lit  *ast.FuncLit
	args []Val
	recv *Val
	fc   *FnCtx
}

type State struct {
	vars     map[types.Object]Val
	heap     map[string]string
	pc       []string
	top      string
	locks    map[string]string
	defers   []deferred
	known    map[string]bool
	closures map[string]*closure
	recov    int // recover-scope depth
	calls    map[string]string // $calls(name): number of calls of the functions named in the contract's `counts` clause
	latchSeen bool  // the wake-up latch has been consulted since the head of the innermost loop (wakeup clause)
	recvs    string // number of values received from channels in this function so far (ghost, $recvs)
	sends    string // number of channel sends that completed in this function so far (ghost, $sends)
	barrier  int // states with different barriers are never merged (paths through different loops)
	ghostN   int
}

func (s *State) clone() *State {
	n := &State{vars: make(map[types.Object]Val, len(s.vars)), heap: make(map[string]string, len(s.heap)),
		pc: append([]string(nil), s.pc...), top: s.top, locks: map[string]string{}, known: make(map[string]bool, len(s.known)),
		closures: map[string]*closure{}, recov: s.recov, barrier: s.barrier, sends: s.sends, recvs: s.recvs, latchSeen: s.latchSeen}
	for k, v := range s.vars {
		n.vars[k] = v
	}
	for k, v := range s.heap {
		n.heap[k] = v
	}
	for k, v := range s.locks {
		n.locks[k] = v
	}
	for k, v := range s.known {
		n.known[k] = v
	}
	for k, v := range s.closures {
		n.closures[k] = v
	}
	n.defers = append([]deferred(nil), s.defers...)
	if s.calls != nil {
		n.calls = make(map[string]string, len(s.calls))
		for k, v := range s.calls {
			n.calls[k] = v
		}
	}
	return n
}

func (s *State) assume(f string) {
	if f == "true" || f == "" {
		return
	}
	s.pc = append(s.pc, f)
}

func (s *State) assumeOnce(f string) {
	if s.known[f] {
		return
	}
	s.known[f] = true
	s.assume(f)
}

type iterMark struct {
	pos, end token.Pos
	top      string
}

type Obligation struct {
	Name   string
	Kind   string
	Goal   string
	PC     []string
	Pos    token.Position
	Desc   string
	Path   int
	Vacuity bool // satisfiability check (expect sat) rather than validity
	Canary  bool // must NOT be provable
}

// FnCtx: verification context of one function under contract.
type FnCtx struct {
	spawned bool // a go statement has been executed on some path of this function
	eng      *Engine
	pkg      *Pkg
	fn       *types.Func
	decl     *ast.FuncDecl
	body     *ast.BlockStmt
	ct       *Contract
	key      string // obligation prefix
	smt      *SMT
	obls     []*Obligation
	entry    *State
	loopOrd  map[ast.Stmt]int
	boxed    map[types.Object]bool
	results  []*types.Var
	resNames []string
	occ      map[string]map[token.Pos]int
	inline   []string // inline stack (callee names) for anchors
	depth    int
	paramsEntry map[string]Val
	recvName string
	warnings []string
	inLoop   int // nesting depth of loops being executed
	nSleep   int
	trusted  map[string]bool // extern / quiet / library-model functions this proof relies on
	unsupported []string
	info     *types.Info
	retHook  func(st *State, vals []Val) // when inlined
	npaths   int
	tparams  map[string]types.Type
	parent   *FnCtx
	frame    *frameSpec
	frameDone bool
	nbarrier int
	isClosure bool            // verifying a function literal: free variables are captured (symbolic) values
	entryScope map[string]Val
	entryLocks []string
	loopEntries map[int]*State
	clauseHit   map[string]bool // root only: emit-clause keys (callpre f / sendpre ch / ...) that met at least one site
	capturedVars map[string]types.Object // closure under contract: variables of the enclosing function it uses
	iterMarks   []iterMark // root only: allocation watermark at the start of the (arbitrary) iteration of each loop being executed
	canaries []*Obligation
	havocFor int
	freshRows map[int]map[string]string
	headHeap map[int]map[string]string
	freshTop string
	curLoop int
}

func (fc *FnCtx) warn(format string, a ...any) {
	w := fmt.Sprintf(format, a...)
	for _, x := range fc.root().warnings {
		if x == w {
			return
		}
	}
	fc.root().warnings = append(fc.root().warnings, w)
}

// root returns the outermost context (inlined callees share obligations with the caller)
func (fc *FnCtx) root() *FnCtx {
	if fc.parent != nil {
		return fc.parent.root()
	}
	return fc
}

type unsupportedErr struct{ msg string }

func (fc *FnCtx) unsupp(pos token.Pos, format string, a ...any) {
	msg := fmt.Sprintf(format, a...)
	if pos.IsValid() {
		p := fc.eng.fset.Position(pos)
		msg = fmt.Sprintf("%s (%s:%d)", msg, shortFile(p.Filename), p.Line)
	}
	panic(unsupportedErr{msg})
}

func shortFile(f string) string {
	if i := strings.LastIndex(f, "/"); i >= 0 {
		return f[i+1:]
	}
	return f
}

func (fc *FnCtx) anchor(kind, text string, pos token.Pos) string {
	r := fc.root()
	if len(fc.inline) > 0 {
		text = strings.Join(fc.inline, ">") + ">" + text
	}
	k := kind + ":" + text
	m := r.occ[k]
	if m == nil {
		m = map[token.Pos]int{}
		r.occ[k] = m
	}
	n, ok := m[pos]
	if !ok {
		n = len(m) + 1
		m[pos] = n
	}
	if n == 1 {
		return fmt.Sprintf("%s#%s", r.key, k)
	}
	return fmt.Sprintf("%s#%s.%d", r.key, k, n)
}

func (fc *FnCtx) assert(st *State, kind, text string, pos token.Pos, goal string, desc string) {
	if goal == "true" {
		return
	}
	r := fc.root()
	name := fc.anchor(kind, text, pos)
	o := &Obligation{Name: name, Kind: kind, Goal: goal, PC: append([]string(nil), st.pc...), Desc: desc}
	if pos.IsValid() {
		o.Pos = fc.eng.fset.Position(pos)
	}
	r.obls = append(r.obls, o)
}

// assertNamed: explicit obligation id suffix (post/pre clause names)
func (fc *FnCtx) assertNamed(st *State, kind, suffix string, goal, desc string, pos token.Pos) {
	r := fc.root()
	if len(fc.inline) > 0 {
		suffix = strings.Join(fc.inline, ">") + ">" + suffix
	}
	o := &Obligation{Name: fmt.Sprintf("%s#%s:%s", r.key, kind, suffix), Kind: kind, Goal: goal, PC: append([]string(nil), st.pc...), Desc: desc}
	if pos.IsValid() {
		o.Pos = fc.eng.fset.Position(pos)
	}
	r.obls = append(r.obls, o)
}

// ---------- heap ----------

func (fc *FnCtx) comp(st *State, key, srt string) string {
	if t, ok := st.heap[key]; ok {
		return t
	}
	smt := fc.smt
	if t, ok := smt.initHeap[key]; ok {
		st.heap[key] = t
		return t
	}
	n := "H0_" + sanitize(key)
	smt.declare(n, fmt.Sprintf("(declare-const %s %s)", n, srt))
	smt.initHeap[key] = n
	smt.heapSort[key] = srt
	st.heap[key] = n
	return n
}

func (fc *FnCtx) setComp(st *State, key, srt, term string) {
	fc.comp(st, key, srt) // make sure the initial constant exists
	st.heap[key] = fc.nameIfBig(st, term, srt, "Hn_"+key)
}

// nameIfBig introduces a constant for a large term (with its defining equation as an assumption) so that
// later terms refer to the name: without this, nested stores / ites grow exponentially.
func (fc *FnCtx) nameIfBig(st *State, term, srt, hint string) string {
	if len(term) < 1500 {
		return term
	}
	n := fc.smt.fresh(hint, srt)
	st.pc = append(st.pc, eq(n, term))
	return n
}

func (fc *FnCtx) havocComp(st *State, key string) {
	srt, ok := fc.smt.heapSort[key]
	if !ok {
		return
	}
	st.heap[key] = fc.smt.fresh("Hv_"+key, srt)
}

func structKeyName(t types.Type) string {
	t = types.Unalias(t)
	if p, ok := t.Underlying().(*types.Pointer); ok {
		t = types.Unalias(p.Elem())
	}
	if n, ok := t.(*types.Named); ok {
		return qualName(n)
	}
	return sanitize(types.TypeString(t, nil))
}

func (fc *FnCtx) fieldKey(structT types.Type, f *types.Var) (string, string) {
	key, srt := "F$"+structKeyName(structT)+"."+f.Name(), "(Array Int "+fc.smt.sortOf(f.Type())+")"
	return key, srt
}

// noteRefComp: references stored in the heap at function entry refer to objects that exist at entry
// (they are <= top0); this separates them from everything the function allocates itself.
func (fc *FnCtx) noteRefComp(key, srt string, t types.Type) {
	if fc.smt.refNoted[key] {
		return
	}
	fc.smt.refNoted[key] = true
	n := "H0_" + sanitize(key)
	var body string
	switch t.Underlying().(type) {
	case *types.Pointer, *types.Map, *types.Chan, *types.Signature, *types.Interface:
		if _, isTP := types.Unalias(t).(*types.TypeParam); isTP {
			return
		}
		body = "(<= (select " + n + " r) top0)"
	case *types.Slice:
		body = "(<= (s_base (select " + n + " r)) top0)"
	default:
		return
	}
	fc.smt.declare(n, fmt.Sprintf("(declare-const %s %s)", n, srt))
	if _, ok := fc.smt.initHeap[key]; !ok {
		fc.smt.initHeap[key] = n
		fc.smt.heapSort[key] = srt
	}
	fc.smt.declare("top0", "(declare-const top0 Int)")
	fc.smt.axiom("(forall ((r Int)) (! " + body + " :pattern ((select " + n + " r))))")
}

// elemsKey: one heap component per slice ELEMENT TYPE (slices of different element types never alias)
func (fc *FnCtx) elemsKey(elem types.Type) (string, string) {
	es := fc.smt.sortOf(elem)
	tn := types.TypeString(types.Unalias(elem), func(p *types.Package) string { return p.Name() })
	if _, isTP := types.Unalias(elem).(*types.TypeParam); isTP {
		tn = es
	}
	return "E$" + sanitize(tn), "(Array Int (Array Int " + es + "))"
}

func (fc *FnCtx) ptrKey(elem types.Type) (string, string) {
	es := fc.smt.sortOf(elem)
	return "P$" + es, "(Array Int " + es + ")"
}

func (fc *FnCtx) mapKeys(m *types.Map) (dk, ds, vk, vs string) {
	ks, es := fc.smt.sortOf(m.Key()), fc.smt.sortOf(m.Elem())
	id := ks + "$" + es
	return "MD$" + id, "(Array Int (Array " + ks + " Bool))", "MV$" + id, "(Array Int (Array " + ks + " " + es + "))"
}

const mapLenKey, mapLenSort = "ML", "(Array Int Int)"
const chanOpenKey, chanOpenSort = "CO", "(Array Int Bool)"

// typeInv: constraints that hold for every well-typed value
func (fc *FnCtx) typeInv(st *State, v Val, depth int) []string {
	t := types.Unalias(v.Ty)
	if t == nil {
		return nil
	}
	if isTimeType(t) {
		return nil
	}
	if _, ok := t.(*types.TypeParam); ok {
		return nil
	}
	if vt, ok := isAtomicInt(t); ok {
		return fc.typeInv(st, Val{v.T, vt}, depth)
	}
	var out []string
	switch u := t.Underlying().(type) {
	case *types.Basic:
		if lo, hi, ok := intRange(t); ok {
			out = append(out, fmt.Sprintf("(and (<= %s %s) (<= %s %s))", lo, v.T, v.T, hi))
		}
	case *types.Pointer, *types.Chan, *types.Signature, *types.Interface:
		out = append(out, fmt.Sprintf("(and (<= 0 %s) (<= %s %s))", v.T, v.T, st.top))
	case *types.Map:
		out = append(out, fmt.Sprintf("(and (<= 0 %s) (<= %s %s))", v.T, v.T, st.top))
		out = append(out, fmt.Sprintf("(and (>= %[1]s 0) (<= %[1]s %[2]s))", sel(fc.comp(st, mapLenKey, mapLenSort), v.T), MaxAlloc))
	case *types.Slice:
		out = append(out, fmt.Sprintf("(and (<= 0 (s_base %[1]s)) (<= (s_base %[1]s) %[2]s) (= 0 (s_off %[1]s)) (<= 0 (s_len %[1]s)) (<= (s_len %[1]s) (s_cap %[1]s)) (<= (s_cap %[1]s) %[3]s) (=> (= (s_base %[1]s) 0) (= (s_cap %[1]s) 0)))", v.T, st.top, MaxAlloc))
	case *types.Struct:
		if isOpaqueStruct(t) || depth > 2 {
			return nil
		}
		ss := fc.smt.structSort(t, u)
		for i, f := range ss.fields {
			out = append(out, fc.typeInv(st, Val{"(" + ss.sels[i] + " " + v.T + ")", f.Type()}, depth+1)...)
		}
	}
	return out
}

func (fc *FnCtx) assumeTyped(st *State, v Val) {
	for _, c := range fc.typeInv(st, v, 0) {
		st.assumeOnce(c)
	}
}

func (fc *FnCtx) freshVal(st *State, name string, t types.Type) Val {
	v := Val{fc.smt.fresh(name, fc.smt.sortOf(t)), t}
	fc.assumeTyped(st, v)
	return v
}

// alloc returns a fresh reference
func (fc *FnCtx) alloc(st *State, name string) string {
	r := fc.smt.fresh(name, "Int")
	st.assume(fmt.Sprintf("(> %s %s)", r, st.top))
	st.top = r
	return r
}

// ---------- struct field access ----------

func derefStruct(t types.Type) (types.Type, *types.Struct, bool) {
	t = types.Unalias(t)
	isPtr := false
	if p, ok := t.Underlying().(*types.Pointer); ok {
		isPtr = true
		t = types.Unalias(p.Elem())
	}
	s, _ := t.Underlying().(*types.Struct)
	return t, s, isPtr
}

// readField reads field index i of base (pointer to struct or struct value)
func (fc *FnCtx) readField(st *State, base Val, i int) Val {
	sT, su, isPtr := derefStruct(base.Ty)
	if su == nil {
		panic(unsupportedErr{fmt.Sprintf("field read on non-struct %s", base.Ty)})
	}
	f := su.Field(i)
	if isPtr {
		k, ks := fc.fieldKey(sT, f)
		c := fc.comp(st, k, ks)
		v := Val{sel(c, base.T), f.Type()}
		fc.assumeTyped(st, v)
		if c == fc.smt.initHeap[k] {
			// a component this path has never written still holds entry values: references in it exist at entry
			switch f.Type().Underlying().(type) {
			case *types.Pointer, *types.Map, *types.Chan, *types.Signature, *types.Interface:
				if _, isTP := types.Unalias(f.Type()).(*types.TypeParam); !isTP {
					st.assumeOnce("(<= " + v.T + " top0)")
				}
			case *types.Slice:
				st.assumeOnce("(<= (s_base " + v.T + ") top0)")
			}
		}
		return v
	}
	if isOpaqueStruct(sT) {
		return fc.opaqueField(st, base, sT, f)
	}
	ss := fc.smt.structSort(sT, su)
	return Val{"(" + ss.sels[i] + " " + base.T + ")", f.Type()}
}

func (fc *FnCtx) writeFieldPtr(st *State, base Val, i int, v string) {
	sT, su, _ := derefStruct(base.Ty)
	f := su.Field(i)
	k, ks := fc.fieldKey(sT, f)
	fc.setComp(st, k, ks, sto(fc.comp(st, k, ks), base.T, v))
}

// updateStructVal returns a copy of struct value sv with field i set to v
func (fc *FnCtx) updateStructVal(sv Val, i int, v string) Val {
	sT, su, _ := derefStruct(sv.Ty)
	ss := fc.smt.structSort(sT, su)
	var parts []string
	for j := range ss.fields {
		if j == i {
			parts = append(parts, v)
		} else {
			parts = append(parts, "("+ss.sels[j]+" "+sv.T+")")
		}
	}
	return Val{"(" + ss.ctor() + " " + strings.Join(parts, " ") + ")", sv.Ty}
}

// loadStruct builds the struct value stored at pointer p
func (fc *FnCtx) loadStruct(st *State, p Val) Val {
	sT, su, _ := derefStruct(p.Ty)
	if isOpaqueStruct(sT) {
		// the value behind a pointer to an abstract struct: unknown, a function of the pointer (not one shared constant)
		fc.smt.declare("opq_at", "(declare-fun opq_at (Int) Opaque)")
		return Val{"(opq_at " + p.T + ")", sT}
	}
	ss := fc.smt.structSort(sT, su)
	if len(ss.fields) == 0 {
		return Val{ss.ctor(), sT}
	}
	var parts []string
	for i := range ss.fields {
		parts = append(parts, fc.readField(st, p, i).T)
	}
	return Val{"(" + ss.ctor() + " " + strings.Join(parts, " ") + ")", sT}
}

func (fc *FnCtx) storeStruct(st *State, p Val, v Val) {
	sT, su, _ := derefStruct(p.Ty)
	if isOpaqueStruct(sT) {
		return
	}
	ss := fc.smt.structSort(sT, su)
	for i := range ss.fields {
		fc.writeFieldPtr(st, p, i, "("+ss.sels[i]+" "+v.T+")")
	}
}

// ---------- merging ----------

func commonPrefix(a, b []string) int {
	n := 0
	for n < len(a) && n < len(b) && a[n] == b[n] {
		n++
	}
	return n
}

func sameLocks(a, b *State) bool {
	if len(a.locks) != len(b.locks) {
		return false
	}
	for k, v := range a.locks {
		if b.locks[k] != v {
			return false
		}
	}
	return true
}

// mergeStates joins states (same control point). Returns nil if they cannot be merged.
func (fc *FnCtx) mergeStates(sts []*State) *State {
	if len(sts) == 0 {
		return nil
	}
	if len(sts) == 1 {
		return sts[0]
	}
	base := sts[0]
	for _, s := range sts[1:] {
		if !sameLocks(base, s) || len(s.defers) != len(base.defers) || s.recov != base.recov || s.barrier != base.barrier {
			return nil
		}
	}
	p := len(base.pc)
	for _, s := range sts[1:] {
		if c := commonPrefix(base.pc, s.pc); c < p {
			p = c
		}
	}
	conds := make([]string, len(sts))
	for i, s := range sts {
		conds[i] = and(s.pc[p:]...)
	}
	m := base.clone()
	m.pc = append([]string(nil), base.pc[:p]...)
	// The merged values below are nested ite terms keyed on the branch conditions, which is right only if the conditions
	// exclude one another (c / not c of an `if`, the cases of a switch). Branches of a free choice (the cases of a select,
	// outcomes of a call) do not: then a fresh selector is put in front of every condition.
	if !pairwiseExclusive(sts, p) {
		sel := fc.smt.fresh("joinsel", "Int")
		for i := range conds {
			conds[i] = and(fmt.Sprintf("(= %s %d)", sel, i), conds[i])
		}
	}
	// name long branch conditions: they are repeated in every merged variable / heap component
	for i, c := range conds {
		if len(c) > 200 {
			n := fc.smt.fresh("br", "Bool")
			m.pc = append(m.pc, eq(n, c))
			conds[i] = n
		}
	}
	m.assume(or(conds...))
	pick := func(get func(*State) (string, bool)) (string, bool) {
		v0, ok := get(sts[len(sts)-1])
		if !ok {
			return "", false
		}
		res := v0
		for i := len(sts) - 2; i >= 0; i-- {
			vi, ok := get(sts[i])
			if !ok {
				return "", false
			}
			res = mergeTerm(conds[i], vi, res)
		}
		return res, true
	}
	// variables: a variable that is live in only some of the joined states (a local of an inner scope) keeps its value
	// on those paths and is arbitrary on the others (postconditions may name it)
	allVars := map[types.Object]Val{}
	for _, s := range sts {
		for obj, v := range s.vars {
			if _, ok := allVars[obj]; !ok {
				allVars[obj] = v
			}
		}
	}
	for obj, v := range allVars {
		dead := ""
		t, _ := pick(func(s *State) (string, bool) {
			if x, ok := s.vars[obj]; ok {
				return x.T, true
			}
			if dead == "" {
				dead = fc.smt.fresh("dead_"+sanitize(obj.Name()), fc.smt.sortOf(v.Ty))
			}
			return dead, true
		})
		m.vars[obj] = Val{fc.nameIfBig(m, t, fc.smt.sortOf(v.Ty), "m_"+obj.Name()), v.Ty}
	}
	keys := map[string]bool{}
	for _, s := range sts {
		for k := range s.heap {
			keys[k] = true
		}
	}
	var ks []string
	for k := range keys {
		ks = append(ks, k)
	}
	sort.Strings(ks)
	for _, k := range ks {
		t, _ := pick(func(s *State) (string, bool) {
			if x, ok := s.heap[k]; ok {
				return x, true
			}
			return fc.smt.initHeap[k], true
		})
		if srt, ok := fc.smt.heapSort[k]; ok {
			t = fc.nameIfBig(m, t, srt, "Hm_"+k)
		}
		m.heap[k] = t
	}
	m.latchSeen = true
	for _, s := range sts {
		if !s.latchSeen {
			m.latchSeen = false
		}
	}
	callNames := map[string]bool{}
	for _, s := range sts {
		for k := range s.calls {
			callNames[k] = true
		}
	}
	for k := range callNames {
		c, _ := pick(func(s *State) (string, bool) {
			if v, ok := s.calls[k]; ok {
				return v, true
			}
			return "0", true
		})
		if m.calls == nil {
			m.calls = map[string]string{}
		}
		m.calls[k] = c
	}
	if sd, ok := pick(func(s *State) (string, bool) {
		if s.sends == "" {
			return "0", true
		}
		return s.sends, true
	}); ok {
		m.sends = sd
	}
	if rv, ok := pick(func(s *State) (string, bool) {
		if s.recvs == "" {
			return "0", true
		}
		return s.recvs, true
	}); ok {
		m.recvs = rv
	}
	t, _ := pick(func(s *State) (string, bool) { return s.top, true })
	if t != base.top {
		nt := fc.smt.fresh("top", "Int")
		m.assume(eq(nt, t))
		m.top = nt
	}
	for _, s := range sts[1:] {
		for k, v := range s.closures {
			m.closures[k] = v
		}
	}
	// known facts: keep only those known in all
	for k := range m.known {
		for _, s := range sts[1:] {
			if !s.known[k] {
				delete(m.known, k)
				break
			}
		}
	}
	return m
}

func storeParts(t string) (a, i, v string, ok bool) {
	if !strings.HasPrefix(t, "(store ") {
		return
	}
	args := splitSexp(t[7 : len(t)-1])
	if len(args) != 3 {
		return
	}
	return args[0], args[1], args[2], true
}

// mergeTerm builds ite(c, a, b), pushing the choice inside array stores over a common base so that
// solvers see point-wise updates instead of an ite between whole arrays.
func mergeTerm(c, a, b string) string {
	if a == b {
		return a
	}
	if A, i, v, ok := storeParts(a); ok {
		if A == b {
			return sto(A, i, mergeTerm(c, v, sel(A, i)))
		}
		if B, j, w, ok2 := storeParts(b); ok2 && A == B && i == j {
			return sto(A, i, mergeTerm(c, v, w))
		}
	}
	if B, j, w, ok := storeParts(b); ok && B == a {
		return sto(B, j, mergeTerm(c, sel(B, j), w))
	}
	return ite(c, a, b)
}

// opaqueField: a field of a struct VALUE whose type is kept abstract (reflect.StructField, ...) is an uninterpreted
// function of that value - unknown, but the same at every read. (It used to read as the zero value, which made every
// branch that depends on such a field look dead.)
func (fc *FnCtx) opaqueField(st *State, base Val, sT types.Type, f *types.Var) Val {
	tn := "anon"
	if n := namedOf(sT); n != nil {
		tn = qualName(n)
	}
	fn := "opqf_" + sanitize(tn) + "_" + sanitize(f.Name())
	fc.smt.declare(fn, fmt.Sprintf("(declare-fun %s (Opaque) %s)", fn, fc.smt.sortOf(f.Type())))
	v := Val{"(" + fn + " " + base.T + ")", f.Type()}
	if st != nil {
		fc.assumeTyped(st, v)
	}
	return v
}

// pairwiseExclusive: every two of the states carry, after their common prefix, a literal and its negation.
func pairwiseExclusive(sts []*State, p int) bool {
	lits := make([]map[string]bool, len(sts))
	for i, s := range sts {
		lits[i] = map[string]bool{}
		for _, c := range s.pc[p:] {
			lits[i][c] = true
		}
	}
	for i := 0; i < len(sts); i++ {
		for j := i + 1; j < len(sts); j++ {
			ex := false
			for c := range lits[i] {
				if lits[j][not(c)] || (strings.HasPrefix(c, "(not ") && lits[j][c[5:len(c)-1]]) {
					ex = true
					break
				}
			}
			if !ex {
				return false
			}
		}
	}
	return true
}

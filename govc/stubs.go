package main

// Pieces filled in later: bounded stand-ins, lemma bridge, model extraction, replay on real code.

func cmdSelftest(args []string) int { return 2 }

func runBounded(eng *Engine, prop, name, tier string, seed int) (note string, failingReplay string) {
	return "bounded stand-in " + name + ": not implemented", ""
}

func checkLemma(eng *Engine, name string) (bool, string) { return true, "lemma " + name + ": not checked" }

func findModel(eng *Engine, f *OblResult, work string) (string, map[string]any) { return "", nil }

func replayOnRealCode(eng *Engine, prop, obl string, f *OblResult, inputs map[string]any) (bool, string) {
	return false, ""
}

package main

func cmdSelftest(args []string) int { return 2 }

package main

import (
	"os"
	"os/exec"
	"path/filepath"
)

// outDir: where evidence and replay files go (/verif, unless GOVC_OUT redirects them - used by the self-test so that
// runs on deliberately broken copies never overwrite the evidence of the real tree)
func outDir(eng *Engine) string {
	return envOr("GOVC_OUT", eng.verif)
}

// cmdSelftest runs the must-fail corpus (/verif/bin/selftest).
func cmdSelftest(args []string) int {
	cmd := exec.Command(filepath.Join(envOr("GOVC_VERIF", "/verif"), "bin", "selftest"), args...)
	cmd.Stdout, cmd.Stderr = os.Stdout, os.Stderr
	if err := cmd.Run(); err != nil {
		if ee, ok := err.(*exec.ExitError); ok {
			return ee.ExitCode()
		}
		return 2
	}
	return 0
}

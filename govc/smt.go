package main

// SMT context: sorts, declarations, Go-type -> sort mapping, zero values.

import (
	"fmt"
	"go/types"
	"sort"
	"strings"
)

type Val struct {
	T  string
	Ty types.Type
}

type structSort struct {
	name   string
	fields []*types.Var
	sels   []string
	sorts  []string
}

type SMT struct {
	sortDecls []string
	sortSeen  map[string]bool
	decls     []string
	declSeen  map[string]bool
	axioms    []string
	axSeen    map[string]bool
	nfresh    int
	structs   map[string]*structSort // by sort name
	structOf  map[types.Type]*structSort
	anon      int
	strLits   map[string]string
	strOrder  []string
	typeTags  map[string]int
	tagOrder  []string
	initHeap  map[string]string
	heapSort  map[string]string
	recFuns   []string
	refNoted  map[string]bool
	modLemma  map[string]bool // axioms that are lemmas about emod/ediv (dropped when those are defined as mod/div)
}

func newSMT() *SMT {
	s := &SMT{sortSeen: map[string]bool{}, declSeen: map[string]bool{}, axSeen: map[string]bool{}, structs: map[string]*structSort{},
		structOf: map[types.Type]*structSort{}, strLits: map[string]string{}, typeTags: map[string]int{},
		initHeap: map[string]string{}, heapSort: map[string]string{}, modLemma: map[string]bool{}, refNoted: map[string]bool{}}
	s.sortDecls = append(s.sortDecls,
		"(declare-sort Str 0)",
		"(declare-sort Opaque 0)",
		"(declare-datatypes ((Slice 0)) (((mk_Slice (s_base Int) (s_off Int) (s_len Int) (s_cap Int)))))")
	s.sortSeen["Str"], s.sortSeen["Opaque"], s.sortSeen["Slice"] = true, true, true
	s.declare("strlen", "(declare-fun strlen (Str) Int)")
	s.declare("str_empty", "(declare-const str_empty Str)")
	s.declare("str_concat", "(declare-fun str_concat (Str Str) Str)")
	s.declare("dyntype", "(declare-fun dyntype (Int) Int)")
	s.declare("opaque0", "(declare-const opaque0 Opaque)")
	// Euclidean remainder / quotient by a symbolic divisor are kept uninterpreted (the solvers treat a
	// symbolic modulus as nonlinear arithmetic and give up); the facts needed are lemmas (prelude axioms,
	// proved separately against the real operators).
	s.declare("emod", "(declare-fun emod (Int Int) Int)")
	s.declare("ediv", "(declare-fun ediv (Int Int) Int)")
	s.axiom("(= (strlen str_empty) 0)")
	s.axiom("(forall ((s Str)) (! (=> (= (strlen s) 0) (= s str_empty)) :pattern ((strlen s))))")
	s.axiom("(forall ((s Str)) (! (>= (strlen s) 0) :pattern ((strlen s))))")
	return s
}

func (s *SMT) declare(name, decl string) {
	if s.declSeen[name] {
		return
	}
	s.declSeen[name] = true
	s.decls = append(s.decls, decl)
}
func (s *SMT) axiom(a string) {
	if s.axSeen[a] {
		return
	}
	s.axSeen[a] = true
	s.axioms = append(s.axioms, a)
}

func sanitize(n string) string {
	var b strings.Builder
	for _, c := range n {
		switch {
		case c >= 'a' && c <= 'z', c >= 'A' && c <= 'Z', c >= '0' && c <= '9', c == '_':
			b.WriteRune(c)
		default:
			b.WriteString("_")
		}
	}
	return b.String()
}

func (s *SMT) fresh(prefix, srt string) string {
	s.nfresh++
	n := fmt.Sprintf("%s!%d", sanitize(prefix), s.nfresh)
	s.decls = append(s.decls, fmt.Sprintf("(declare-const %s %s)", n, srt))
	return n
}

func isTimeType(t types.Type) bool {
	if n, ok := types.Unalias(t).(*types.Named); ok {
		o := n.Obj()
		return o.Pkg() != nil && o.Pkg().Path() == "time" && o.Name() == "Time"
	}
	return false
}

// isAtomicInt: sync/atomic integer/boolean boxes are modelled by the value they hold
func isAtomicInt(t types.Type) (types.Type, bool) {
	n, ok := types.Unalias(t).(*types.Named)
	if !ok || n.Obj().Pkg() == nil || n.Obj().Pkg().Path() != "sync/atomic" {
		return nil, false
	}
	switch n.Obj().Name() {
	case "Int32":
		return types.Typ[types.Int32], true
	case "Int64":
		return types.Typ[types.Int64], true
	case "Uint32":
		return types.Typ[types.Uint32], true
	case "Uint64":
		return types.Typ[types.Uint64], true
	case "Bool":
		return types.Typ[types.Bool], true
	}
	return nil, false
}

func isOpaqueStruct(t types.Type) bool {
	n, ok := types.Unalias(t).(*types.Named)
	if !ok {
		return false
	}
	if _, at := isAtomicInt(t); at {
		return false
	}
	o := n.Obj()
	if o.Pkg() == nil {
		return false
	}
	p := o.Pkg().Path()
	switch {
	case p == "sync", p == "sync/atomic", strings.Contains(p, "protobuf/internal"), strings.HasSuffix(p, "protoimpl"),
		p == "context", strings.HasPrefix(p, "crypto/"), p == "crypto/x509", p == "net", p == "reflect", p == "unsafe":
		return true
	}
	if p == "google.golang.org/protobuf/runtime/protoimpl" {
		return true
	}
	return false
}

func qualName(n *types.Named) string {
	o := n.Obj()
	name := o.Name()
	if ta := n.TypeArgs(); ta != nil && ta.Len() > 0 {
		var parts []string
		for i := 0; i < ta.Len(); i++ {
			parts = append(parts, sanitize(types.TypeString(ta.At(i), func(p *types.Package) string { return p.Name() })))
		}
		name += "_" + strings.Join(parts, "_")
	}
	if o.Pkg() != nil {
		return o.Pkg().Name() + "_" + name
	}
	return name
}

func (s *SMT) sortOf(t types.Type) string {
	t = types.Unalias(t)
	if tp, ok := t.(*types.TypeParam); ok {
		n := "TP_" + sanitize(tp.Obj().Name())
		if !s.sortSeen[n] {
			s.sortSeen[n] = true
			s.sortDecls = append(s.sortDecls, "(declare-sort "+n+" 0)")
		}
		return n
	}
	if isTimeType(t) {
		return "Int"
	}
	if vt, ok := isAtomicInt(t); ok {
		return s.sortOf(vt)
	}
	switch u := t.Underlying().(type) {
	case *types.Basic:
		switch {
		case u.Info()&types.IsBoolean != 0:
			return "Bool"
		case u.Info()&types.IsInteger != 0:
			return "Int"
		case u.Info()&types.IsString != 0:
			return "Str"
		case u.Info()&types.IsFloat != 0:
			return "Real"
		}
		return "Int"
	case *types.Pointer, *types.Map, *types.Chan, *types.Signature, *types.Interface:
		return "Int"
	case *types.Slice:
		return "Slice"
	case *types.Array:
		return "(Array Int " + s.sortOf(u.Elem()) + ")"
	case *types.Struct:
		if isOpaqueStruct(t) {
			return "Opaque"
		}
		return s.structSort(t, u).name
	case *types.Tuple:
		return "Int"
	}
	return "Int"
}

func (s *SMT) structSort(t types.Type, u *types.Struct) *structSort {
	if ss, ok := s.structOf[t]; ok {
		return ss
	}
	var name string
	if n, ok := types.Unalias(t).(*types.Named); ok {
		name = "S_" + sanitize(qualName(n))
	} else {
		s.anon++
		name = fmt.Sprintf("S_anon%d", s.anon)
	}
	if ss, ok := s.structs[name]; ok {
		s.structOf[t] = ss
		return ss
	}
	ss := &structSort{name: name}
	s.structs[name] = ss
	s.structOf[t] = ss
	var parts []string
	for i := 0; i < u.NumFields(); i++ {
		f := u.Field(i)
		fs := s.sortOf(f.Type())
		sel := "g_" + name[2:] + "_" + sanitize(f.Name())
		ss.fields = append(ss.fields, f)
		ss.sels = append(ss.sels, sel)
		ss.sorts = append(ss.sorts, fs)
		parts = append(parts, fmt.Sprintf("(%s %s)", sel, fs))
	}
	ctor := "mk_" + name[2:]
	if len(parts) == 0 {
		s.sortDecls = append(s.sortDecls, fmt.Sprintf("(declare-datatypes ((%s 0)) (((%s))))", name, ctor))
	} else {
		s.sortDecls = append(s.sortDecls, fmt.Sprintf("(declare-datatypes ((%s 0)) (((%s %s))))", name, ctor, strings.Join(parts, " ")))
	}
	return ss
}

func (ss *structSort) ctor() string { return "mk_" + ss.name[2:] }

func (s *SMT) strLit(v string) string {
	if v == "" {
		return "str_empty"
	}
	if n, ok := s.strLits[v]; ok {
		return n
	}
	n := fmt.Sprintf("strlit%d_%s", len(s.strLits), sanitize(trunc(v, 24)))
	s.strLits[v] = n
	s.strOrder = append(s.strOrder, v)
	s.decls = append(s.decls, fmt.Sprintf("(declare-const %s Str)", n))
	s.axioms = append(s.axioms, fmt.Sprintf("(= (strlen %s) %d)", n, len(v)))
	return n
}

func trunc(s string, n int) string {
	if len(s) > n {
		return s[:n]
	}
	return s
}

func (s *SMT) typeTag(t types.Type) string {
	k := types.TypeString(t, nil)
	if _, ok := s.typeTags[k]; !ok {
		s.typeTags[k] = len(s.typeTags) + 1
		s.tagOrder = append(s.tagOrder, k)
		// typename(x): the unqualified name of the dynamic type (spec builtin)
		name := k
		if i := strings.LastIndex(name, "."); i >= 0 {
			name = name[i+1:]
		}
		name = strings.TrimLeft(name, "*")
		s.declare("tyname", "(declare-fun tyname (Int) Str)")
		s.axioms = append(s.axioms, fmt.Sprintf("(= (tyname %d) %s)", s.typeTags[k], s.strLit(name)))
	}
	return fmt.Sprintf("%d", s.typeTags[k])
}

func (s *SMT) zero(t types.Type) string {
	t = types.Unalias(t)
	if _, ok := t.(*types.TypeParam); ok {
		n := "zero_" + s.sortOf(t)
		s.declare(n, fmt.Sprintf("(declare-const %s %s)", n, s.sortOf(t)))
		return n
	}
	if isTimeType(t) {
		return "0"
	}
	if vt, ok := isAtomicInt(t); ok {
		return s.zero(vt)
	}
	switch u := t.Underlying().(type) {
	case *types.Basic:
		switch {
		case u.Info()&types.IsBoolean != 0:
			return "false"
		case u.Info()&types.IsString != 0:
			return "str_empty"
		case u.Info()&types.IsFloat != 0:
			return "0.0"
		}
		return "0"
	case *types.Slice:
		return "(mk_Slice 0 0 0 0)"
	case *types.Struct:
		if isOpaqueStruct(t) {
			return "opaque0"
		}
		ss := s.structSort(t, u)
		if len(ss.fields) == 0 {
			return ss.ctor()
		}
		var parts []string
		for _, f := range ss.fields {
			parts = append(parts, s.zero(f.Type()))
		}
		return "(" + ss.ctor() + " " + strings.Join(parts, " ") + ")"
	case *types.Array:
		return fmt.Sprintf("((as const (Array Int %s)) %s)", s.sortOf(u.Elem()), s.zero(u.Elem()))
	}
	return "0"
}

// header emits the declarations. real=true defines emod/ediv as the SMT-LIB operators (ground truth) and
// drops the lemma axioms about them; real=false keeps them uninterpreted with the lemma axioms.
func (s *SMT) header(real bool) string {
	var b strings.Builder
	b.WriteString("(set-logic ALL)\n")
	for _, d := range s.sortDecls {
		b.WriteString(d + "\n")
	}
	for _, d := range s.decls {
		if real && d == "(declare-fun emod (Int Int) Int)" {
			d = "(define-fun emod ((a Int) (n Int)) Int (mod a n))"
		}
		if real && d == "(declare-fun ediv (Int Int) Int)" {
			d = "(define-fun ediv ((a Int) (n Int)) Int (div a n))"
		}
		b.WriteString(d + "\n")
	}
	for _, d := range s.recFuns {
		b.WriteString(d + "\n")
	}
	if len(s.strOrder) > 0 {
		var names []string
		for _, v := range s.strOrder {
			names = append(names, s.strLits[v])
		}
		names = append(names, "str_empty")
		sort.Strings(names)
		b.WriteString("(assert (distinct " + strings.Join(names, " ") + "))\n")
	}
	for _, a := range s.axioms {
		if real && s.modLemma[a] {
			continue
		}
		b.WriteString("(assert " + a + ")\n")
	}
	return b.String()
}

// integer range of a Go basic integer type (nil if unbounded / not integer)
func intRange(t types.Type) (lo, hi string, ok bool) {
	b, isB := types.Unalias(t).Underlying().(*types.Basic)
	if !isB || b.Info()&types.IsInteger == 0 {
		return "", "", false
	}
	switch b.Kind() {
	case types.Int8:
		return "(- 128)", "127", true
	case types.Int16:
		return "(- 32768)", "32767", true
	case types.Int32:
		return "(- 2147483648)", "2147483647", true
	case types.Int, types.Int64:
		return "(- 9223372036854775808)", "9223372036854775807", true
	case types.Uint8:
		return "0", "255", true
	case types.Uint16:
		return "0", "65535", true
	case types.Uint32:
		return "0", "4294967295", true
	case types.Uint, types.Uint64, types.Uintptr:
		return "0", "18446744073709551615", true
	case types.UntypedInt, types.UntypedRune:
		return "", "", false
	}
	return "", "", false
}

func and(xs ...string) string {
	var ys []string
	for _, x := range xs {
		if x == "true" || x == "" {
			continue
		}
		ys = append(ys, x)
	}
	switch len(ys) {
	case 0:
		return "true"
	case 1:
		return ys[0]
	}
	return "(and " + strings.Join(ys, " ") + ")"
}
func or(xs ...string) string {
	switch len(xs) {
	case 0:
		return "false"
	case 1:
		return xs[0]
	}
	return "(or " + strings.Join(xs, " ") + ")"
}
func not(x string) string {
	if x == "true" {
		return "false"
	}
	if x == "false" {
		return "true"
	}
	return "(not " + x + ")"
}
func imp(a, b string) string { return "(=> " + a + " " + b + ")" }
func ite(c, a, b string) string {
	if a == b {
		return a
	}
	return "(ite " + c + " " + a + " " + b + ")"
}
func eq(a, b string) string { return "(= " + a + " " + b + ")" }
// sel builds (select a i), simplifying select-over-store on a syntactically equal index
func sel(a, i string) string {
	for strings.HasPrefix(a, "(store ") {
		args := splitSexp(a[7 : len(a)-1])
		if len(args) != 3 {
			break
		}
		if args[1] == i {
			return args[2]
		}
		// distinct numerals / obviously distinct: keep looking only when indices are provably different
		if isNumeral(args[1]) && isNumeral(i) {
			a = args[0]
			continue
		}
		break
	}
	return "(select " + a + " " + i + ")"
}

func isNumeral(s string) bool {
	if s == "" {
		return false
	}
	for _, c := range s {
		if c < '0' || c > '9' {
			return false
		}
	}
	return true
}

// splitSexp splits the top-level elements of a space-separated s-expression sequence
func splitSexp(s string) []string {
	var out []string
	d, st := 0, -1
	for i := 0; i < len(s); i++ {
		c := s[i]
		switch {
		case c == '(':
			if d == 0 && st < 0 {
				st = i
			}
			d++
		case c == ')':
			d--
			if d == 0 {
				out = append(out, s[st:i+1])
				st = -1
			}
		case c == ' ':
			if d == 0 && st >= 0 {
				out = append(out, s[st:i])
				st = -1
			}
		default:
			if d == 0 && st < 0 {
				st = i
			}
		}
	}
	if st >= 0 {
		out = append(out, s[st:])
	}
	return out
}
func sto(a, i, v string) string {
	return "(store " + a + " " + i + " " + v + ")"
}

// emodT / edivT: Euclidean mod/div; real SMT operators for numeral divisors, uninterpreted otherwise
func emodT(a, n string) string {
	if isNumeral(n) && n != "0" {
		return "(mod " + a + " " + n + ")"
	}
	return "(emod " + a + " " + n + ")"
}
func edivT(a, n string) string {
	if isNumeral(n) && n != "0" {
		return "(div " + a + " " + n + ")"
	}
	return "(ediv " + a + " " + n + ")"
}

//go:build verif

// Contracts (machine-checked by /verif/govc) for package proxy.
// This file contains comments only; it is compiled only with the build tag "verif" and adds no code.
// Syntax: Gobra-style //@ clauses keyed by function; see /verif/DESIGN.md section 2.2.

package proxy

// ---------------------------------------------------------------------------------------------
// C05 (and G1 of C01): the proxy-id ring buffer against an abstract sequence view.
//   view(b) = [ at(0), ..., at(size-1) ],  entry j has proxy id  startProxyID + j
// ---------------------------------------------------------------------------------------------

//@ pred (b *proxyIDRingBuffer) wf() =
//@     1 <= len(b.entries) && len(b.entries) <= MaxAlloc && 0 <= b.head && b.head < len(b.entries) &&
//@     0 <= b.size && b.size <= len(b.entries) && 0 <= b.maxSize && b.maxSize <= MaxAlloc &&
//@     (b.size > 0 ==> 1 <= b.startProxyID && b.startProxyID + int64(b.size) <= MaxID)
//@ func (b *proxyIDRingBuffer) at(j int) proxyIDMapping = b.entries[(b.head + j) % len(b.entries)]
//@ pred hole(m proxyIDMapping) = m.sourceShard.ClusterID == 0 && m.sourceShard.ShardID == 0

//@ contract newProxyIDRingBuffer
//@   props C05 C01
//@   ensures result != nil && fresh(result) && result.wf() && result.size == 0
//@   ensures len(result.entries) == max(capacity, 1)
//@   requires capacity <= MaxAlloc
//@   assigns nothing

//@ contract (*proxyIDRingBuffer).ensureCapacity
//@   props C05 C01
//@   requires b.wf() && (b.size == len(b.entries) ==> 2 * len(b.entries) <= MaxAlloc)
//@   ensures  @wf: b.wf() && b.size < len(b.entries)
//@   ensures  @scalars: b.size == old(b.size) && b.startProxyID == old(b.startProxyID) && b.maxSize == old(b.maxSize)
//@   ensures  @view: forall j int :: 0 <= j && j < b.size ==> b.at(j) == old(b.at(j))
//@   ensures  @cap: len(b.entries) == old(len(b.entries)) || len(b.entries) == 2 * old(len(b.entries))
//@   ensures  @nogrow: old(b.size) < old(len(b.entries)) ==> b.entries == old(b.entries) && b.head == old(b.head)
//@   ensures  @freshness: b.entries == old(b.entries) || fresh(b.entries)
//@   assigns  b.entries, b.head
//@   loop 1 invariant 0 <= i && i <= b.size && len(newEntries) == newCap && fresh(newEntries)
//@   loop 1 invariant forall j int :: 0 <= j && j < i ==> newEntries[j] == b.at(j)
//@   loop 1 decreases b.size - i

//@ contract (*proxyIDRingBuffer).Append
//@   props C05 C01
//@   requires b.wf() && 1 <= proxyID && proxyID < MaxID
//@   requires b.size > 0 ==> proxyID >= b.startProxyID + int64(b.size)
//@   requires b.size > 0 ==> 4 * (proxyID - b.startProxyID + 2) <= MaxAlloc
//@   requires 4 * len(b.entries) <= MaxAlloc
//@   ensures  @wf: b.wf()
//@   ensures  @first: old(b.size) == 0 ==> b.startProxyID == proxyID && b.size == 1
//@   ensures  @size: old(b.size) > 0 ==> b.startProxyID == old(b.startProxyID) && int64(b.size) == proxyID - old(b.startProxyID) + 1
//@   ensures  @kept: forall j int :: 0 <= j && j < old(b.size) ==> b.at(j) == old(b.at(j))
//@   ensures  @holes: forall j int :: old(b.size) <= j && j < b.size - 1 ==> hole(b.at(j)) && b.at(j).sourceTask == 0
//@   ensures  @last: b.at(b.size - 1) == proxyIDMapping{sourceShard: sourceShard, sourceTask: sourceTask}
//@   assigns  b.entries, b.head, b.size, b.maxSize, b.startProxyID, elems(b.entries)
//@   loop 1 invariant b.wf() && b.startProxyID == old(b.startProxyID) && old(b.size) <= b.size
//@   loop 1 invariant expected == b.startProxyID + int64(b.size) && expected <= proxyID
//@   loop 1 invariant len(b.entries) <= old(len(b.entries)) || len(b.entries) <= 2 * b.size
//@   loop 1 invariant b.entries == old(b.entries) || fresh(b.entries)
//@   loop 1 invariant forall j int :: 0 <= j && j < old(b.size) ==> b.at(j) == old(b.at(j))
//@   loop 1 invariant forall j int :: old(b.size) <= j && j < b.size ==> hole(b.at(j)) && b.at(j).sourceTask == 0
//@   loop 1 decreases proxyID - expected

//@ contract (*proxyIDRingBuffer).AggregateUpTo
//@   props C05 C01
//@   requires b.wf()
//@   ensures  @count: result1 == ite(b.size == 0 || watermark < b.startProxyID, 0, min(watermark - b.startProxyID + 1, int64(b.size)))
//@   ensures  @fresh: fresh(result0)
//@   ensures  @covers: forall j int :: 0 <= j && j < result1 && !hole(b.at(j)) ==>
//@               b.at(j).sourceShard in result0 && result0[b.at(j).sourceShard] >= b.at(j).sourceTask
//@   ensures  @attained: forall s history.ClusterShardID :: s in result0 ==>
//@               exists j int :: 0 <= j && j < result1 && !hole(b.at(j)) && b.at(j).sourceShard == s && b.at(j).sourceTask == result0[s]
//@   assigns  nothing
//@   loop 1 invariant 0 <= i && i <= count && count <= b.size
//@   loop 1 invariant forall j int :: 0 <= j && j < i && !hole(b.at(j)) ==>
//@               b.at(j).sourceShard in result && result[b.at(j).sourceShard] >= b.at(j).sourceTask
//@   loop 1 invariant forall s history.ClusterShardID :: s in result ==>
//@               exists j int :: 0 <= j && j < i && !hole(b.at(j)) && b.at(j).sourceShard == s && b.at(j).sourceTask == result[s]
//@   loop 1 decreases count - i

//@ contract (*proxyIDRingBuffer).Discard
//@   props C05 C01
//@   requires b.wf()
//@   ensures  @wf: b.wf()
//@   ensures  @size: b.size == old(b.size) - clamp(count, 0, old(b.size))
//@   ensures  @start: b.size > 0 ==> b.startProxyID == old(b.startProxyID) + int64(clamp(count, 0, old(b.size)))
//@   ensures  @view: forall j int :: 0 <= j && j < b.size ==> b.at(j) == old(b.at(j + clamp(count, 0, old(b.size))))
//@   assigns  b.head, b.size, b.startProxyID
